"""Content-addressed build cache for the verification harnesses.

Everything is rebuilt from /repo's *working tree* (not HEAD): the cache directory is keyed by a
hash of the repository sources, and inside it every target carries a stamp made of its command
line and the content hashes of its inputs, so an edit anywhere under /repo/src or /repo/include
changes the key and forces a rebuild of the repository objects, while an edit to one harness
only rebuilds that harness.
"""
import fcntl
import hashlib
import os
import shutil
import subprocess
import sys
import time
from concurrent.futures import ThreadPoolExecutor

VERIF = os.path.dirname(os.path.dirname(os.path.abspath(__file__)))
REPO = os.environ.get("VERIF_REPO", "/repo")
BUILD_ROOT = os.path.join(VERIF, "build")
CXX = "clang++"
GUARD = "-DTEAKRA_VERIF"

REPO_TUS = ["ahbm", "apbp", "btdmp", "disassembler", "dma", "timer", "memory_interface", "mmio",
            "parser", "processor", "teakra", "test_generator", "teakra_c", "disassembler_c"]

COMMON = ["-std=gnu++17", "-g1", "-O1", "-fno-omit-frame-pointer", GUARD, "-D_GLIBCXX_ASSERTIONS",
          "-Wno-unused-value"]
VARIANTS = {
    # name: (compile flags, link flags)
    "asan": (["-fsanitize=address,undefined", "-fno-sanitize-recover=undefined"],
             ["-fsanitize=address,undefined"]),
    "fuzz": (["-fsanitize=fuzzer-no-link,address,undefined", "-fno-sanitize-recover=undefined"],
             ["-fsanitize=fuzzer,address,undefined"]),
    "tsan": (["-fsanitize=thread"], ["-fsanitize=thread"]),
}


def sha(data):
    return hashlib.sha256(data).hexdigest()


def file_hash(path, _cache={}):
    st = os.stat(path)
    key = (path, st.st_mtime_ns, st.st_size)
    h = _cache.get(key)
    if h is None:
        with open(path, "rb") as f:
            h = sha(f.read())
        _cache[key] = h
    return h


def tree_files(root, exts=None):
    out = []
    for d, dirs, files in os.walk(root):
        dirs.sort()
        for f in sorted(files):
            if exts is None or os.path.splitext(f)[1] in exts:
                out.append(os.path.join(d, f))
    return out


def repo_inc(repo):
    return ["-I" + os.path.join(repo, "include"), "-I" + os.path.join(repo, "src"),
            "-I" + os.path.join(repo, "include", "teakra", "impl")]


def repo_sources(repo=None):
    repo = repo or REPO
    files = tree_files(os.path.join(repo, "src"), {".h", ".cpp"})
    files += tree_files(os.path.join(repo, "include"), {".h"})
    for d in sorted(os.listdir(os.path.join(repo, "hwtest"))) if os.path.isdir(os.path.join(repo, "hwtest")) else []:
        src = os.path.join(repo, "hwtest", d, "firm", "source")
        if os.path.isfile(src):
            files.append(src)
        cdc = os.path.join(repo, "hwtest", d, "data", "cdc.bin")
        if os.path.isfile(cdc):
            files.append(cdc)
    return files


def repo_key(repo=None):
    repo = repo or REPO
    h = hashlib.sha256()
    for f in repo_sources(repo):
        h.update(os.path.relpath(f, repo).encode())
        h.update(file_hash(f).encode())
    return h.hexdigest()[:16]


class Target:
    def __init__(self, out, cmd, inputs, deps=()):
        self.out = out
        self.cmd = cmd
        self.inputs = list(inputs)
        self.deps = list(deps)  # other Target objects

    def stamp(self):
        h = hashlib.sha256()
        h.update(" ".join(self.cmd).encode())
        for f in self.inputs:
            h.update(file_hash(f).encode())
        for d in self.deps:
            h.update(d.stamp().encode())
        return h.hexdigest()


class Builder:
    """A tiny parallel make: targets are (output, command, inputs, deps)."""

    def __init__(self, repo=None, verbose=False):
        self.repo = repo or REPO
        self.key = repo_key(self.repo)
        self.dir = os.path.join(BUILD_ROOT, self.key)
        self.refdir = os.path.join(BUILD_ROOT, "ref")
        os.makedirs(self.dir, exist_ok=True)
        os.makedirs(self.refdir, exist_ok=True)
        self.verbose = verbose
        self.targets = {}
        self.repo_hdrs = [f for f in repo_sources(self.repo) if f.endswith(".h")]
        self.common_hdrs = tree_files(os.path.join(VERIF, "harness", "common"), {".h"}) + \
            tree_files(os.path.join(VERIF, "harness", "models"), {".h"})

    # ---- target constructors -------------------------------------------------------------
    def add(self, t):
        self.targets[t.out] = t
        return t

    def repo_obj(self, tu, variant, extra=()):
        out = os.path.join(self.dir, f"{variant}_{tu.replace('/', '_')}.o")
        if out in self.targets:
            return self.targets[out]
        src = os.path.join(self.repo, "src", tu + ".cpp")
        cmd = [CXX] + COMMON + VARIANTS[variant][0] + repo_inc(self.repo) + list(extra) + ["-c", src, "-o", out]
        return self.add(Target(out, cmd, [src] + self.repo_hdrs))

    def repo_lib(self, variant):
        return [self.repo_obj(tu, variant) for tu in REPO_TUS]

    def harness_obj(self, src, variant, extra=(), needs_repo_headers=True, name=None):
        base = name or os.path.splitext(os.path.basename(src))[0]
        out = os.path.join(self.dir, f"{variant}_h_{base}.o")
        if out in self.targets:
            return self.targets[out]
        cmd = [CXX] + COMMON + VARIANTS[variant][0] + repo_inc(self.repo) + \
            ["-I" + os.path.join(VERIF, "harness", "common"), "-I" + os.path.join(VERIF, "harness", "models"),
             "-I" + os.path.join(VERIF, "harness"), "-I" + self.dir] + list(extra) + ["-c", src, "-o", out]
        inputs = [src] + self.common_hdrs + (self.repo_hdrs if needs_repo_headers else [])
        return self.add(Target(out, cmd, inputs))

    def gen_recorder(self):
        out = os.path.join(self.dir, "gen_recorder.h")
        if out in self.targets:
            return self.targets[out]
        tool = os.path.join(VERIF, "tools", "gen_recorder.py")
        dec = os.path.join(self.repo, "src", "decoder.h")
        return self.add(Target(out, [sys.executable, tool, dec, out], [tool, dec]))

    def optable_ref_obj(self, variant):
        """optable.cpp compiled against the *frozen reference's* decode table (/verif/ref): harnesses whose model is keyed by the
        operation a word names must not learn that operation from the table under test."""
        ref = os.path.join(VERIF, "ref")
        recdir = os.path.join(self.dir, "refrec")
        os.makedirs(recdir, exist_ok=True)
        rec = os.path.join(recdir, "gen_recorder.h")
        tool = os.path.join(VERIF, "tools", "gen_recorder.py")
        dec = os.path.join(ref, "src", "decoder.h")
        if rec not in self.targets:
            self.add(Target(rec, [sys.executable, tool, dec, rec], [tool, dec]))
        out = os.path.join(self.dir, f"{variant}_h_optable_ref.o")
        if out in self.targets:
            return self.targets[out]
        src = os.path.join(VERIF, "harness", "common", "optable.cpp")
        cmd = [CXX] + COMMON + VARIANTS[variant][0] + ["-I" + recdir] + repo_inc(ref) + \
            ["-I" + os.path.join(VERIF, "harness", "common"), "-I" + os.path.join(VERIF, "harness", "models"),
             "-I" + os.path.join(VERIF, "harness")] + ["-c", src, "-o", out]
        ref_hdrs = tree_files(os.path.join(ref, "src"), {".h"}) + tree_files(os.path.join(ref, "include"), {".h"})
        return self.add(Target(out, cmd, [src] + self.common_hdrs + ref_hdrs, deps=[self.targets[rec]]))

    def exe(self, name, objs, variant, libs=()):
        out = os.path.join(self.dir, name)
        if out in self.targets:
            return self.targets[out]
        cmd = [CXX] + VARIANTS[variant][1] + [o.out for o in objs] + ["-o", out] + list(libs) + ["-lpthread"]
        return self.add(Target(out, cmd, [], deps=objs))

    def reflib(self):
        """Frozen reference interpreter (C01): /verif/ref + shim, hidden visibility, own .so."""
        out = os.path.join(self.refdir, "libref.so")
        if out in self.targets:
            return self.targets[out]
        ref = os.path.join(VERIF, "ref")
        srcs = [os.path.join(ref, "src", tu + ".cpp") for tu in REPO_TUS if tu not in ("teakra_c", "disassembler_c")]
        shim = os.path.join(VERIF, "harness", "common", "shim_core.cpp")
        cmd = [CXX, "-std=gnu++17", "-O2", "-g1", GUARD, "-DSHIM_PREFIX=ref_", "-fPIC", "-shared",
               "-fvisibility=hidden", "-fvisibility-inlines-hidden", "-Wl,-Bsymbolic", "-Wl,-z,defs",
               "-I" + os.path.join(ref, "include"), "-I" + os.path.join(ref, "src"),
               "-I" + os.path.join(ref, "include", "teakra", "impl"),
               "-I" + os.path.join(VERIF, "harness", "common")] + srcs + [shim, "-o", out, "-lpthread"]
        inputs = tree_files(ref) + [shim] + self.common_hdrs
        return self.add(Target(out, cmd, inputs))

    def tool(self, name, src):
        out = os.path.join(BUILD_ROOT, "tools", name)
        os.makedirs(os.path.dirname(out), exist_ok=True)
        if out in self.targets:
            return self.targets[out]
        return self.add(Target(out, [CXX, "-std=gnu++17", "-O2", src, "-o", out], [src]))

    # ---- execution ------------------------------------------------------------------------
    def _uptodate(self, t):
        sp = t.out + ".stamp"
        if not os.path.exists(t.out) or not os.path.exists(sp):
            return False
        with open(sp) as f:
            return f.read() == t.stamp()

    def build(self, wanted, jobs=16):
        """Build the given targets (and their deps). Returns list of (target, log) failures."""
        lock_path = os.path.join(BUILD_ROOT, ".lock")
        with open(lock_path, "w") as lock:
            fcntl.flock(lock, fcntl.LOCK_EX)
            os.makedirs(self.dir, exist_ok=True)
            order = []
            seen = set()

            def visit(t):
                if t.out in seen:
                    return
                seen.add(t.out)
                for d in t.deps:
                    visit(d)
                order.append(t)

            for t in wanted:
                visit(t)
            todo = [t for t in order if not self._uptodate(t)]
            # dependants of rebuilt targets have a changed stamp automatically (stamp covers deps' stamps)
            failures = []
            done = set(t.out for t in order if t not in todo)
            pending = list(todo)
            t0 = time.time()
            with ThreadPoolExecutor(max_workers=jobs) as ex:
                running = {}
                while pending or running:
                    progressed = False
                    for t in list(pending):
                        if all(d.out in done for d in t.deps):
                            pending.remove(t)
                            running[ex.submit(self._run, t)] = t
                            progressed = True
                    if not running:
                        break  # deps failed
                    finished = [f for f in running if f.done()]
                    if not finished:
                        time.sleep(0.05)
                        continue
                    for f in finished:
                        t = running.pop(f)
                        ok, log = f.result()
                        if ok:
                            done.add(t.out)
                        else:
                            failures.append((t, log))
            if self.verbose and todo:
                sys.stderr.write(f"[build] {len(todo)} targets in {time.time()-t0:.1f}s\n")
            self._gc()
            return failures

    def _run(self, t):
        if self.verbose:
            sys.stderr.write("[build] " + os.path.basename(t.out) + "\n")
        try:
            os.remove(t.out + ".stamp")
        except OSError:
            pass
        p = subprocess.run(t.cmd, stdout=subprocess.PIPE, stderr=subprocess.STDOUT, text=True)
        if p.returncode != 0 or not os.path.exists(t.out):
            return False, " ".join(t.cmd) + "\n" + p.stdout
        with open(t.out + ".stamp", "w") as f:
            f.write(t.stamp())
        return True, p.stdout

    def _gc(self, keep=6):
        """Keep the most recently used repo-keyed build directories only (disk)."""
        try:
            os.utime(self.dir, None)
            dirs = [os.path.join(BUILD_ROOT, d) for d in os.listdir(BUILD_ROOT)
                    if len(d) == 16 and os.path.isdir(os.path.join(BUILD_ROOT, d))]
            dirs.sort(key=lambda d: os.stat(d).st_mtime, reverse=True)
            for d in dirs[keep:]:
                if time.time() - os.stat(d).st_mtime > 1800:  # never remove a directory used in the last half hour
                    shutil.rmtree(d, ignore_errors=True)
        except OSError:
            pass
