"""Driver logic: build, replay tier, parallel workers, merge, evidence, known findings."""
import array
import glob
import json
import os
import re
import shutil
import subprocess
import sys
import time

from vbuild import Builder, VERIF, REPO, BUILD_ROOT

EVIDENCE_DIR = os.path.join(VERIF, "evidence")
REPLAY_DIR = os.path.join(VERIF, "replay")
FAIL_DIR = os.path.join(VERIF, "failures")
KNOWN_FILE = os.path.join(VERIF, "known_findings.txt")
RUN_ROOT = os.path.join(BUILD_ROOT, "run")


def load_known(prop):
    """known_findings.txt lines:  finding: property=C18 key=<sig> <text>   /   fixed: property=C15 <commit> <text>"""
    known = {}
    if not os.path.exists(KNOWN_FILE):
        return known
    for line in open(KNOWN_FILE):
        line = line.strip()
        m = re.match(r"finding:\s+property=(\S+)\s+key=(\S+)\s+(.*)", line)
        if m and m.group(1) == prop:
            known[m.group(2)] = m.group(3)
    return known


def derive_seed(base, worker):
    x = (base * 0x9E3779B97F4A7C15 + worker * 0xBF58476D1CE4E5B9 + 0x1234567) & 0xFFFFFFFFFFFFFFFF
    x ^= x >> 31
    return x & 0x7FFFFFFFFFFFFFFF


class Spec:
    """What a property check consists of. Subclass-free: filled from the table in `check`."""

    def __init__(self, pid, harness, variant="asan", cases=None, workers=16, rule="", assumptions=None,
                 needs=("lib",), extra_args=None, libs=("-lrapidcheck",), timeout=None, exhaustive_note=None,
                 extra_objs=(), custom=None, single_worker_parts=None, technique="", level_text="", level_note="",
                 design_ref="", fuzz=None):
        self.pid = pid
        self.harness = harness          # source file under harness/
        self.variant = variant
        self.cases = cases or {"quick": 1000, "thorough": 20000}   # per worker
        self.workers = workers
        self.rule = rule
        self.assumptions = assumptions or []
        self.needs = needs
        self.extra_args = extra_args or {}
        self.libs = list(libs)
        self.timeout = timeout or {"quick": 600, "thorough": 7200}
        if os.environ.get("VERIF_WORKER_TIMEOUT"):  # (testing aid: exercise the time-budget path)
            self.timeout = {k: int(os.environ["VERIF_WORKER_TIMEOUT"]) for k in self.timeout}
        self.extra_objs = extra_objs
        self.custom = custom
        self.single_worker_parts = single_worker_parts
        self.technique = technique
        self.level_text = level_text
        self.level_note = level_note
        self.design_ref = design_ref
        self.fuzz = fuzz  # optional libFuzzer stage: {"define": "-DX", "runs": {tier: n}, "workers": {tier: n}, "max_len": n}


def build_for(spec, builder):
    src = os.path.join(VERIF, "harness", spec.harness)
    objs = [builder.harness_obj(src, spec.variant)]
    if "optable" in spec.needs and builder.gen_recorder() not in objs[0].deps:
        objs[0].deps.append(builder.gen_recorder())
    for e in spec.extra_objs:
        objs.append(builder.harness_obj(os.path.join(VERIF, "harness", e), spec.variant))
    if "shim" in spec.needs:
        objs.append(builder.harness_obj(os.path.join(VERIF, "harness", "common", "shim_core.cpp"), spec.variant,
                                        extra=["-DSHIM_PREFIX=sut_"]))
    if "flat" in spec.needs or "shim" in spec.needs:
        objs.append(builder.harness_obj(os.path.join(VERIF, "harness", "common", "flat_state.cpp"), spec.variant,
                                        needs_repo_headers=False))
    if "optable" in spec.needs:
        o = builder.harness_obj(os.path.join(VERIF, "harness", "common", "optable.cpp"), spec.variant)
        if builder.gen_recorder() not in o.deps:
            o.deps.append(builder.gen_recorder())
        objs.append(o)
    if "optable_ref" in spec.needs:
        objs.append(builder.optable_ref_obj(spec.variant))
    if "sys" in spec.needs:
        objs.append(builder.harness_obj(os.path.join(VERIF, "harness", "common", "shim_sys.cpp"), spec.variant))
    if "lib" in spec.needs or "shim" in spec.needs or "sys" in spec.needs:
        objs += builder.repo_lib(spec.variant)
    libs = list(spec.libs)
    wanted = []
    if "ref" in spec.needs:
        ref = builder.reflib()
        wanted.append(ref)
        libs += ["-L" + builder.refdir, "-lref", "-Wl,-rpath," + builder.refdir]
    exe = builder.exe(os.path.splitext(spec.harness)[0], objs, spec.variant, libs=libs)
    if "ref" in spec.needs:
        exe.deps.append(builder.reflib())
    wanted.append(exe)
    if spec.fuzz:
        fsrc = os.path.join(VERIF, "harness", spec.harness)
        fobjs = [builder.harness_obj(fsrc, "fuzz", extra=[spec.fuzz["define"]], name=os.path.splitext(spec.harness)[0] + "_fz")]
        if "optable" in spec.needs and builder.gen_recorder() not in fobjs[0].deps:
            fobjs[0].deps.append(builder.gen_recorder())
        fobjs.append(builder.harness_obj(os.path.join(VERIF, "harness", "common", "shim_core.cpp"), "fuzz", extra=["-DSHIM_PREFIX=sut_"]))
        fobjs.append(builder.harness_obj(os.path.join(VERIF, "harness", "common", "flat_state.cpp"), "fuzz", needs_repo_headers=False))
        if "optable" in spec.needs:
            fo = builder.harness_obj(os.path.join(VERIF, "harness", "common", "optable.cpp"), "fuzz")
            if builder.gen_recorder() not in fo.deps:
                fo.deps.append(builder.gen_recorder())
            fobjs.append(fo)
        fobjs += builder.repo_lib("fuzz")
        flibs = ["-lrapidcheck"]
        if "ref" in spec.needs:
            flibs += ["-L" + builder.refdir, "-lref", "-Wl,-rpath," + builder.refdir]
        fexe = builder.exe(os.path.splitext(spec.harness)[0] + "_fuzz", fobjs, "fuzz", libs=flibs)
        if "ref" in spec.needs and builder.reflib() not in fexe.deps:
            fexe.deps.append(builder.reflib())
        wanted.append(fexe)
    if "makedsp1" in spec.needs:
        # the repository's own assembler tool, built unmodified as its own executable
        mk = builder.exe("makedsp1", [builder.repo_obj("makedsp1/main", spec.variant), builder.repo_obj("makedsp1/sha256", spec.variant),
                                      builder.repo_obj("parser", spec.variant), builder.repo_obj("disassembler", spec.variant)], spec.variant)
        wanted.append(mk)
    return exe, wanted


def run_cmd(cmd, log_path, timeout, env=None):
    with open(log_path, "w") as log:
        try:
            p = subprocess.run(cmd, stdout=subprocess.DEVNULL, stderr=log, timeout=timeout, env=env)
            return p.returncode
        except subprocess.TimeoutExpired:
            return "timeout"


def sanitizer_signature(log_text):
    """Root-cause-ish signature from a sanitizer report: kind + first frame inside the repository."""
    kind = None
    if "VERIF-HANG:" in log_text:
        return "hang:watchdog"
    m = re.search(r"ERROR: AddressSanitizer: (\S+)", log_text)
    if m:
        kind = "asan:" + m.group(1)
    m2 = re.search(r"runtime error: ([^\n]*)", log_text)
    if not kind and m2:
        kind = "ubsan:" + re.sub(r"[0-9a-fx]{4,}", "N", m2.group(1))[:60].replace(" ", "_")
    if not kind:
        m3 = re.search(r"(terminate called[^\n]*|Assertion[^\n]*failed[^\n]*|DEADLYSIGNAL)", log_text)
        kind = "abort:" + (m3.group(1)[:60].replace(" ", "_") if m3 else "unknown")
    frame = ""
    for fm in re.finditer(r"#\d+ 0x[0-9a-f]+ in (\S+) (/repo/[^\s:]+)", log_text):
        frame = fm.group(1) + "@" + os.path.basename(fm.group(2))
        break
    if not frame and m2:
        fm = re.search(r"(/repo/\S+?):(\d+)", log_text)
        if fm:
            frame = os.path.basename(fm.group(1))
    return kind + (":" + frame if frame else "")


def merge_hashes(paths):
    total = set()
    for p in paths:
        if not os.path.exists(p):
            continue
        a = array.array("Q")
        with open(p, "rb") as f:
            data = f.read()
        a.frombytes(data[: len(data) // 8 * 8])
        total.update(a)
    return len(total)


def run_check(spec, tier, seed, replay=None, verbose=False, workers_override=None):
    t0 = time.time()
    pid = spec.pid
    builder = Builder(verbose=verbose)
    exe, wanted = build_for(spec, builder)
    failures = builder.build(wanted)
    if failures:
        for t, log in failures:
            sys.stderr.write(f"BUILD FAILED: {t.out}\n{log[-4000:]}\n")
        print(f"ERROR property={pid} build failed (harness does not compile against the current tree)")
        return 2
    known = load_known(pid)
    rundir = os.path.join(RUN_ROOT, f"{pid}-{os.getpid()}")
    shutil.rmtree(rundir, ignore_errors=True)
    os.makedirs(rundir)
    faildir = os.path.join(FAIL_DIR, pid)
    env = dict(os.environ)
    env["ASAN_OPTIONS"] = "detect_leaks=0:detect_stack_use_after_return=1:abort_on_error=0:allocator_may_return_null=1:handle_abort=1:exitcode=77:malloc_context_size=5:quarantine_size_mb=64"
    env["UBSAN_OPTIONS"] = "print_stacktrace=1:halt_on_error=1:exitcode=77"
    env["TSAN_OPTIONS"] = "halt_on_error=0:second_deadlock_stack=1:exitcode=66"
    env["VERIF_REPO"] = REPO
    common = ["--tier", tier, "--faildir", faildir]
    if known:
        common += ["--known", ",".join(known.keys())]
    common += spec.extra_args.get(tier, [])

    reports = []
    violations = []       # (sig, why, path)
    known_hits = {}       # sig -> (count, example)
    notes = []

    def handle_worker(tag, cmd, report, log, timeout):
        rc = run_cmd(cmd, log, timeout, env)
        rep = None
        if os.path.exists(report):
            try:
                rep = json.load(open(report))
            except Exception as e:  # truncated report
                notes.append(f"{tag}: unreadable report ({e})")
        if rc == "timeout":
            ff = report + ".firstfail"
            if os.path.exists(ff) and not replay and not tag.startswith("timeoutcase"):
                # the worker had found a failing case and was still shrinking it: replay the unshrunk case (3x inside the harness)
                os.makedirs(faildir, exist_ok=True)
                path = os.path.join(faildir, "unshrunk-%s-%s.case" % (tag, time.strftime("%H%M%S")))
                shutil.copy(ff, path)
                r2 = os.path.join(rundir, f"timeoutcase-{tag}.json")
                rep2 = handle_worker(f"timeoutcase-{tag}", [exe.out, "--report", r2, "--replay", path] + common, r2,
                                     os.path.join(rundir, f"timeoutcase-{tag}.log"), 600)
                notes.append(f"{tag}: time budget exhausted while shrinking a failure; the unshrunk case was replayed")
                return rep2
            notes.append(f"{tag}: time budget exhausted (inconclusive, not a violation)")
            return rep
        log_text = open(log, errors="replace").read() if os.path.exists(log) else ""
        if rc not in (0, 1) and rep is not None and "ThreadSanitizer: reported" in log_text:
            # ThreadSanitizer reported although the harness itself finished: a data race / lock-order report
            kinds = re.findall(r"WARNING: ThreadSanitizer: ([^\n(]+)", log_text)
            fns = []
            for fm in re.finditer(r"#\d+ (?:0x[0-9a-f]+ in )?(Teakra::[\w:~]+)", log_text):
                if fm.group(1) not in fns:
                    fns.append(fm.group(1))
                if len(fns) >= 2:
                    break
            sig = f"{pid}:tsan:" + (kinds[0].strip().replace(" ", "-") if kinds else "report") + ":" + "|".join(fns)
            os.makedirs(faildir, exist_ok=True)
            path = os.path.join(faildir, "tsan-%s-%s.case" % (tag, time.strftime("%H%M%S")))
            with open(path, "w") as f:
                f.write("prop=tsan_rerun\n" + " ".join(cmd[1:]) + "\n# sig=%s\n" % sig)
                f.write("# " + "\n# ".join(log_text.splitlines()[:60]) + "\n")
            confirmed = 1
            for i in range(2):
                r2 = os.path.join(rundir, f"tsanconfirm-{tag}-{i}.json")
                rc2 = run_cmd([cmd[0], "--report", r2] + [a for a in cmd[3:]], os.path.join(rundir, f"tsanconfirm-{tag}-{i}.log"), timeout, env)
                l2 = os.path.join(rundir, f"tsanconfirm-{tag}-{i}.log")
                if rc2 not in (0, 1) and "ThreadSanitizer: reported" in open(l2, errors="replace").read():
                    confirmed += 1
            if sig in known:
                known_hits.setdefault(sig, [0, ""])
                known_hits[sig][0] += 1
            elif confirmed == 3:
                m = re.search(r"WARNING: ThreadSanitizer:[^\n]*", log_text)
                violations.append((sig, (m.group(0) if m else "ThreadSanitizer report") + "\n" + log_text[:3000], path))
            else:
                notes.append(f"{tag}: ThreadSanitizer report did not reproduce 3x ({confirmed}/3): {sig}")
            return rep
        if rc == -9:
            # SIGKILL never comes from the tested code or a sanitizer (they abort or exit): the system's OOM killer or an
            # operator ended this worker. Its share of the exploration is missing, which is not a statement about the property.
            notes.append(f"{tag}: killed by the system (SIGKILL, e.g. out of memory); inconclusive, not a violation")
            return rep
        crashed = rc not in (0, 1) or rep is None
        if crashed:
            log_text = open(log, errors="replace").read()
            sig = f"{pid}:crash:" + sanitizer_signature(log_text)
            crash_case = report + ".crash"
            path = None
            if os.path.exists(crash_case):
                os.makedirs(faildir, exist_ok=True)
                path = os.path.join(faildir, "crash-%s-%s.case" % (tag, time.strftime("%H%M%S")))
                shutil.copy(crash_case, path)
                with open(path, "a") as f:
                    f.write("# sig=%s\n" % sig)
            # confirm in fresh processes through the replay path
            confirmed = 0
            if path and not replay:
                for i in range(3):
                    r2 = os.path.join(rundir, f"confirm-{tag}-{i}.json")
                    l2 = os.path.join(rundir, f"confirm-{tag}-{i}.log")
                    rc2 = run_cmd([exe.out, "--report", r2, "--replay", path] + common, l2, 300, env)
                    if rc2 not in (0, 1) or not os.path.exists(r2) or json.load(open(r2)).get("violations"):
                        confirmed += 1
            elif replay:
                confirmed = 3
                path = replay
            if sig in known:
                known_hits.setdefault(sig, [0, ""])
                known_hits[sig][0] += 1
                known_hits[sig][1] = log_text[-1500:]
            elif confirmed == 3 and path:
                m = re.search(r"[^\n]*(runtime error|ERROR: AddressSanitizer|ERROR: ThreadSanitizer|WARNING: ThreadSanitizer)[^\n]*", log_text)
                violations.append((sig, (m.group(0) if m else log_text[-300:]) + "\n" + log_text[-3000:], path))
            else:
                notes.append(f"{tag}: worker died (rc={rc}, sig={sig}) but the saved case did not reproduce 3x "
                             f"({confirmed}/3); treated as harness instability, see {log}")
        return rep

    # ---- replay tier: every committed regression case first ------------------------------------
    replay_files = [replay] if replay else sorted(glob.glob(os.path.join(REPLAY_DIR, pid, "*.case")))
    n_replayed = 0
    fuzz_replays = []
    if spec.fuzz:
        cand = [replay] if replay else sorted(glob.glob(os.path.join(REPLAY_DIR, pid, "fuzz-*")))
        fuzz_replays = [f for f in cand if f and os.path.basename(f).startswith("fuzz-")]
        replay_files = [f for f in replay_files if f not in fuzz_replays]
    for i, rf in enumerate(fuzz_replays):
        fexe = os.path.join(builder.dir, os.path.splitext(spec.harness)[0] + "_fuzz")
        l2 = os.path.join(rundir, f"fzreplay{i}.log")
        fails = sum(1 for _ in range(3) if run_cmd([fexe, rf], l2, 300, env) != 0)
        if fails == 3:
            text = open(l2, errors="replace").read()
            m = re.search(r"VERIF-VIOLATION sig=(\S+)", text)
            sig = m.group(1) if m else f"{pid}:crash:" + sanitizer_signature(text)
            if sig in known:
                known_hits.setdefault(sig, [0, ""])
                known_hits[sig][0] += 1
            else:
                violations.append((sig, text[-600:], rf))
    for i, rf in enumerate(list(replay_files)):
        first = open(rf, errors="replace").readline().strip() if os.path.exists(rf) else ""
        if first == "prop=tsan_rerun":
            args = open(rf).read().splitlines()[1].split()
            report = os.path.join(rundir, f"replay-{i}.json")
            # the recorded worker command line: --report <old> --seed S --cases N ...
            args = [a for k, a in enumerate(args) if not (k < 2)]
            handle_worker(f"replay{i}", [exe.out, "--report", report] + args, report, os.path.join(rundir, f"replay-{i}.log"), spec.timeout[tier])
            n_replayed += 1
            replay_files.remove(rf)
    for i, rf in enumerate(replay_files):
        report = os.path.join(rundir, f"replay-{i}.json")
        rep = handle_worker(f"replay{i}", [exe.out, "--report", report, "--replay", rf] + common,
                            report, os.path.join(rundir, f"replay-{i}.log"), 600)
        n_replayed += 1
        if rep:
            reports.append(rep)

    # ---- generated search ---------------------------------------------------------------------
    if not replay:
        import concurrent.futures
        W = workers_override or spec.workers
        cases = spec.cases[tier]
        futs = {}
        with concurrent.futures.ThreadPoolExecutor(max_workers=W) as ex:
            for w in range(W):
                report = os.path.join(rundir, f"w{w}.json")
                cmd = [exe.out, "--report", report, "--seed", str(derive_seed(seed, w)), "--cases", str(cases),
                       "--worker", str(w), "--workers", str(W)] + common
                futs[ex.submit(handle_worker, f"w{w}", cmd, report, os.path.join(rundir, f"w{w}.log"),
                               spec.timeout[tier])] = w
            for f in concurrent.futures.as_completed(futs):
                rep = f.result()
                if rep:
                    reports.append(rep)

    # ---- coverage-guided stage (libFuzzer), same oracle inside the target ------------------------------------
    fuzz_stats = None
    if spec.fuzz and not replay:
        import concurrent.futures
        fexe = os.path.join(builder.dir, os.path.splitext(spec.harness)[0] + "_fuzz")
        FW = spec.fuzz["workers"][tier]
        runs = spec.fuzz["runs"][tier]
        seeds_dir = os.path.join(VERIF, "fuzz", "seeds", pid)
        fenv = dict(env)
        fenv["ASAN_OPTIONS"] = env["ASAN_OPTIONS"].replace("handle_abort=1", "handle_abort=0")

        def fuzz_worker(w):
            corpus = os.path.join(rundir, f"corpus{w}")
            os.makedirs(corpus)
            if w % 2 == 0 and os.path.isdir(seeds_dir):   # half of the workers start from the seed corpus, half from nothing
                for f in os.listdir(seeds_dir):
                    shutil.copy(os.path.join(seeds_dir, f), corpus)
            log = os.path.join(rundir, f"fuzz{w}.log")
            cmd = [fexe, f"-runs={runs}", f"-seed={derive_seed(seed, 100 + w) % 2147483647 + 1}", f"-max_len={spec.fuzz.get('max_len', 1024)}",
                   f"-artifact_prefix={rundir}/fz{w}-", "-print_final_stats=1", "-timeout=60", "-rss_limit_mb=4096", corpus]
            rc = run_cmd(cmd, log, spec.timeout[tier], fenv)
            text = open(log, errors="replace").read()
            execs = re.search(r"stat::number_of_executed_units:\s*(\d+)", text)
            cov = re.findall(r"cov: (\d+) ft: (\d+)", text)
            return w, rc, int(execs.group(1)) if execs else 0, (int(cov[-1][0]), int(cov[-1][1])) if cov else (0, 0), len(os.listdir(corpus)), text

        fuzz_stats = {"workers": FW, "runs_per_worker": runs, "executions": 0, "coverage_edges_max": 0, "features_max": 0, "corpus_files": 0}
        with concurrent.futures.ThreadPoolExecutor(max_workers=FW) as ex:
            for w, rc, execs, cov, ncorp, text in ex.map(fuzz_worker, range(FW)):
                fuzz_stats["executions"] += execs
                fuzz_stats["coverage_edges_max"] = max(fuzz_stats["coverage_edges_max"], cov[0])
                fuzz_stats["features_max"] = max(fuzz_stats["features_max"], cov[1])
                fuzz_stats["corpus_files"] += ncorp
                arts = [a for a in glob.glob(os.path.join(rundir, f"fz{w}-*")) if os.path.basename(a).startswith((f"fz{w}-crash-", f"fz{w}-leak-"))]
                if rc == "timeout":
                    notes.append(f"fuzz{w}: time budget exhausted (inconclusive, not a violation)")
                for a in arts:
                    os.makedirs(faildir, exist_ok=True)
                    dest = os.path.join(faildir, "fuzz-" + os.path.basename(a))
                    shutil.copy(a, dest)
                    m = re.search(r"VERIF-VIOLATION sig=(\S+)", text)
                    sig = m.group(1) if m else f"{pid}:crash:" + sanitizer_signature(text)
                    confirmed = 0
                    for i in range(3):
                        l2 = os.path.join(rundir, f"fzconfirm{w}-{i}.log")
                        rc2 = run_cmd([fexe, dest], l2, 300, fenv)
                        if rc2 != 0:
                            confirmed += 1
                    if sig in known:
                        known_hits.setdefault(sig, [0, ""])
                        known_hits[sig][0] += 1
                    elif confirmed == 3:
                        m2 = re.search(r"[^\n]*(runtime error|ERROR: AddressSanitizer|VERIF-VIOLATION)[^\n]*(\n[^\n]*)?", text)
                        violations.append((sig, (m2.group(0) if m2 else text[-300:]), dest))
                    else:
                        notes.append(f"fuzz{w}: artifact {os.path.basename(a)} did not reproduce 3x ({confirmed}/3)")
        evaluations_fuzz = fuzz_stats["executions"]
    else:
        evaluations_fuzz = 0

    # ---- merge -----------------------------------------------------------------------------------
    evaluations = sum(r.get("evaluations", 0) for r in reports) + evaluations_fuzz
    classes = {}
    subchecks = {}
    samples = []
    exhaustive = {}
    for r in sorted(reports, key=lambda r: r.get("worker", 0)):
        for k, v in r.get("classes", {}).items():
            classes[k] = classes.get(k, 0) + v
        for k, v in r.get("subchecks", {}).items():
            subchecks.setdefault(k, []).append(v)
        for s in r.get("samples", []):
            if len(samples) < 12 and s not in samples:
                samples.append(s)
        for k, v in r.get("exhaustive", {}).items():
            exhaustive[k] = exhaustive.get(k, True) and v
        notes.extend(r.get("notes", []))
        for kh in r.get("known_hits", []):
            e = known_hits.setdefault(kh["sig"], [0, ""])
            e[0] += kh["count"]
            e[1] = e[1] or kh.get("example", "")
        for v in r.get("violations", []):
            if v.get("confirmed"):
                violations.append((v["sig"], v["why"], v["path"]))
            else:
                notes.append("unconfirmed (flaky) failure ignored: " + v["sig"] + " " + v["path"])
    distinct = merge_hashes(glob.glob(os.path.join(rundir, "*.json.hashes")))
    wall = time.time() - t0

    # de-duplicate violations by signature (count root causes, not inputs)
    by_sig = {}
    for sig, why, path in violations:
        by_sig.setdefault(sig, (why, path))

    inconclusive = [n for n in notes if "inconclusive" in n]
    evidence = {
        "property_id": pid,
        "tier": tier,
        "seed": int(seed),
        "level": "exploration",
        "coverage": {
            "evaluations": int(evaluations),
            "distinct_nontrivial": int(distinct),
            "rule": spec.rule,
            "samples": samples,
            "classes": dict(sorted(classes.items())),
            "subchecks": {k: (v[0] if len(set(v)) == 1 else v) for k, v in sorted(subchecks.items())},
            "replayed_regression_cases": n_replayed,
            "workers": 0 if replay else (workers_override or spec.workers),
            "known_findings_hit": {k: v[0] for k, v in known_hits.items()},
            "exhaustive_subdomains": sorted(k for k, v in exhaustive.items() if v),
            "notes": notes[:40],
            "repo_tree_key": builder.key,
            **({"libfuzzer_stage": fuzz_stats} if fuzz_stats else {}),
        },
        "assumptions": spec.assumptions,
        "wall_s": round(wall, 2),
        "violations": len(by_sig),
    }
    if exhaustive and all(exhaustive.values()) and spec.custom == "exhaustive":
        evidence["coverage"]["exhaustive"] = True
    # evidence/<id>.json describes runs against /repo itself; a run against a scratch tree (VERIF_REPO, sensitivity work)
    # leaves its record next to its logs instead
    ev_dir = EVIDENCE_DIR if os.path.realpath(REPO) == "/repo" else os.path.join(RUN_ROOT, "evidence-scratch")
    os.makedirs(ev_dir, exist_ok=True)
    if not replay:
        with open(os.path.join(ev_dir, pid + ".json"), "w") as f:
            json.dump(evidence, f, indent=1)
            f.write("\n")
    for sig, (cnt, example) in sorted(known_hits.items()):
        print(f"KNOWN-FINDING: property={pid} key={sig} hits={cnt} {known.get(sig, '')}")
    broken = [n for n in notes if "worker died" in n]
    for n in broken:
        print(f"ERROR property={pid} {n}")
    for sig, (why, path) in sorted(by_sig.items()):
        print(f"VIOLATION property={pid} replay={path}")
        first = why.strip().splitlines()[0] if why.strip() else ""
        print(f"  signature: {sig}")
        print(f"  detail: {first[:400]}")
    status = "VIOLATED" if by_sig else ("held (inconclusive parts: %d)" % len(inconclusive) if inconclusive else "held")
    print(f"[{pid}] {tier}: {evaluations} cases, {distinct} distinct non-trivial, {n_replayed} replayed, "
          f"{len(by_sig)} violation(s), {wall:.1f}s -> {status}")
    if verbose:
        for n in notes[:20]:
            print("  note:", n)
    if by_sig or notes:
        # keep logs of the most recent troubled run only
        keep = os.path.join(RUN_ROOT, f"{pid}-last-troubled")
        shutil.rmtree(keep, ignore_errors=True)
        os.rename(rundir, keep)
    else:
        shutil.rmtree(rundir, ignore_errors=True)
    if by_sig:
        return 1
    return 2 if broken else 0
