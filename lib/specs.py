"""The table of registered checks: one Spec per property (cases are *per worker*)."""
from vdriver import Spec

SPECS = {}


def reg(spec):
    SPECS[spec.pid] = spec


reg(Spec("C15", "c15_timer.cpp", needs=("lib",),
         cases={"quick": 40000, "thorough": 1500000},
         rule="rapidcheck-generated histories (<=80 ops: mode/start/pause/MU writes, Restart, Tick x1..6, TickEvent, "
              "Skip(k) with k resolved against the horizon the timer reports: 0, 1, h-1, h, h/2, random) on the real "
              "Teakra::Timer; oracle = cycle-exact model + twin doing k x Tick() for every Skip(k). core_timing_pair (20% of the cases): two "
              "timers registered on one CoreTiming, configure/restart/pause/tick/CoreTiming::Skip(max): the returned k must be min(max, both "
              "horizons) and both timers must equal a twin pair advanced by k x CoreTiming::Tick(). timer_facade (2% of the cases): both timers through MMIO on a Teakra whose DSP idles (start, configuration word with restart strobe, event write, Run): counter read-back and ICU lines 0xA / 0x9 vs the model. Half of the timer_facade histories never acknowledge the interrupt controller: every 1 -> 0 crossing must still raise the core line (observed as the line's pending bit). In those histories timer 0 is routed to two core lines (int0 and int2): both must be raised. Non-trivial = the "
              "history contains a Skip(k>=1) on a running timer or a 1->0 crossing; distinct by hash of the op list.",
         assumptions=["time scale stays 0 and count mode < 4 (other values are deliberate ASSERTs in Tick/Restart)",
                      "Restart in free-running mode is outside the property's statement: reload or no-op are both accepted",
                      "mirror registers: while MU=1 a stale mirror may or may not catch up on an op that leaves the counter unchanged"]))

reg(Spec("C16", "c16_btdmp.cpp", needs=("lib",),
         cases={"quick": 2500, "thorough": 60000},
         rule="rapidcheck-generated histories (<=120 ops: send of serially tagged words, flush, enable/disable, Tick xN with N "
              "aimed at frame boundaries, Skip(k) with k in {0,1,h-1,h,random} against the reported horizon) on the real "
              "Teakra::Btdmp with a period chosen per history from {1,2,3,7,1000,4096,65535} U small U uniform; oracle = "
              "FIFO/frame-clock model + twin doing k x Tick() for every Skip(k) + conservation of words after a final drain. "
              "core_timing_btdmp (20% of the cases): the port next to a free-running timer on one CoreTiming; CoreTiming::Skip(max) vs that many CoreTiming::Tick() on a twin (frames per operation, flags, interrupts), also while transmitting with an empty queue. core_timing_btdmp also runs without an audio callback installed; btdmp_facade (10% of the cases): both ports through MMIO on a Teakra whose DSP idles (send, flush, enable, Run up to three periods): port 0's frames, both status words and ICU line 0xB vs two instances of the model. In a third of the histories every third word is 0xFFFF / 0x0000 / 0x8000 / 0x7FFF instead of its serial tag. Non-trivial = at least one frame carrying a real (non-filler) word; distinct by hash of (period, op list).",
         assumptions=["period >= 1 and fixed before the first tick (not reachable from MMIO; the source calls it a placeholder)",
                      "the frame clock only advances while transmission is enabled and keeps its phase across disable/enable",
                      "per skip at most min(h, 3*period+5, 20000) cycles so the ticking twin stays affordable"]))

reg(Spec("C14", "c14_apbp.cpp", needs=("lib",),
         cases={"quick": 4000, "thorough": 100000},
         rule="rapidcheck-generated histories (<=60 ops) of host API calls (SendData/RecvData/PeekRecvData/Set/Clear/MaskSemaphore) "
              "and DSP-side MMIO accesses (REPLYi write/read-back, CMDi read, 0x0CC/0x0CE/0x0D0 writes, CIi bits of 0x0D4) through the "
              "host MMIO accessor, its 0x800 mirrors and the DSP data path, on one real Teakra instance re-initialised per case; "
              "after every op all observable APBP state is compared with a two-direction mailbox/semaphore model and the interrupt "
              "rule is checked (ICU IRQ 14 / host handlers). DSP-side writes of arbitrary values to the two status registers are part of the histories (the flags are live views: no effect). The host's semaphore handler can be switched to re-enter the API (acknowledge all / mask all / acknowledge given bits); the model applies what the handler did after judging the interrupt rule on the state the operation itself produced. c_binding (15% of the cases): the same generated history of host calls (send / receive / peek / flags / set / clear / mask / get semaphore, program / data / A32 accessors) and DSP-side register accesses drives a C++ facade instance and a C-binding context (teakra_c.cpp): every returned value, every handler invocation, the DSP-side registers and the ready flags agree after every operation. Non-trivial = history with >=1 send and >=1 semaphore op; distinct by op-list hash.",
         assumptions=["channel index < 3 (the API contract)", "0x0D8 bit 9 (S', documented as the CPU-side flag but wired to the DSP-side one) is not checked",
                      "the signal flag of the dsp->cpu direction has no register; it is checked through the interrupt rule only"]))

reg(Spec("C01", "c01_diff.cpp", needs=("shim", "ref", "optable"),
         cases={"quick": 60000, "thorough": 1500000},
         fuzz={"define": "-DC01_LIBFUZZER", "runs": {"quick": 40000, "thorough": 6000000}, "workers": {"quick": 4, "thorough": 16}, "max_len": 2048},
         technique="differential property-based testing against a frozen reference (rapidcheck) + coverage-guided differential fuzzing (libFuzzer) + the project's own generator as a stream",
         rule="(a) differential: first word stratified over the decode-table entries (uniform entry, then uniform word of that "
              "entry; 3/16 plain uniform words), second word, full machine state expanded deterministically from a "
              "rapidcheck-generated 64-bit value (every RegisterState field incl. shadow banks within its hardware width, "
              "boundary-biased accumulators/16-bit values, lp==(bcn!=0), bcn<=4, prpage=0), pokes of the cells the state points "
              "at, pending interrupt latches; run once on the current tree and on the frozen pinned interpreter; non-trivial = "
              "reference completes and changes something other than pc; distinct by hash(opcode, expansion, state). "
              "(b) every vector of the project's own generator (seeded through the hook) streamed through a FIFO.",
         assumptions=["the reference is the pinned commit's interpreter (frozen copy in /verif/ref), which upstream validated against hardware vectors",
                      "prpage = 0 and pc <= 0x3FFF0 (beyond that the reference itself reads outside the array)",
                      "core assembled like test_verifier (no MMIO region); mmio_base moved to 0xFFFF so only data address 0xFFFF is an MMIO ASSERT",
                      "UnimplementedException tolerated for generator vectors, as test_verifier skips them"]))

reg(Spec("C02", "c02_decode.cpp", needs=("shim", "optable"), custom="exhaustive",
         rule="complete enumeration of all 65536 first words (worker i takes words with w % 16 == i): O1 own match count over the "
              "repository's decode table (recording visitor) <= 1; O2 recorder / interpreter / disassembler / assembler agree on "
              "defined-ness, handler and need for a second word (interpreter = the table GetDecoderTable<Interpreter>() builds, i.e. what "
              "Run() dispatches through); O3 execution from 4 (quick) / 16 (thorough) (second word, start "
              "address, state) combinations: fetch log and pc advance equal the declared length, a one-word form is followed by a "
              "fetch from A+1, and execution never trips the decoder's own consistency assertion; O5 the disassembler's text / length for "
              "(word, second word) is the same right after another second word of the same opcode as after another opcode; O6 a two-word "
              "opcode executed twice at one address with different second words behaves, the second time, as on a second core that never "
              "ran the first; O7 every two-word non-branching form under an active single-instruction repeat: the next fetch is never its operand word (fails on the unchanged tree: known finding #18); one full pass of the project's test generator: no undefined word, a second program word only for two-word forms; O4 every bit declared Unused<> in the table text, flipped, on 32/128 generated states: same text, same "
              "execution, and declared set == set of bits the recorder shows to be don't-care. O8 a repeated one-word instruction at the end of an active block (passes left) is never followed by a fetch inside the two-word bkrep in front of the block. Non-trivial = defined word; distinct = the word.",
         assumptions=["control-transfer handlers (br, brr, call*, ret*, movpdw, mov_pc) are exempt from the pc-advance clause, not from the fetch clause",
                      "instructions ending in Unimplemented / deliberate ASSERT make no length claim",
                      "the test generator's view of the form is checked through its vectors in C01(b) (pc advance of every vector)"]))

reg(Spec("C05", "c05_text.cpp", needs=("shim", "optable", "makedsp1"), custom="exhaustive",
         rule="complete enumeration of all 65536 first words (worker i takes w % 16 == i): RT every printable word: its token list "
              "assembles (Valid / ValidWithExpansion == NeedExpansion) to an opcode that prints identically for 8 (quick) / 64 "
              "(thorough) second words and, when it is a different opcode, executes identically on 8 / 64 generated states; GRP all "
              "words sharing a text differ only in declared Unused<> bits; JOIN Do() == tokens joined by 4 spaces (with generated "
              "ar/arp annotation); CB the C binding for every buffer size 0..len+4 between 512-byte canary zones and in an exact-size "
              "heap block (1/4 of the words in quick, all in thorough); FW the four firmware sources through makedsp1's own main vs "
              "cdc.bin, and the binary disassembled along the source. Non-trivial = printable word with operands; distinct = the word.",
         assumptions=["harness objects of the C05 executable that include decoder.h need a gen_recorder.h (build dependency only)",
                      "'$xxxx' in firmware sources marks the second word exactly where its four hex digits are printed (as makedsp1 assumes)"]))

reg(Spec("C20", "c20_words.cpp", needs=("shim", "optable"), custom="exhaustive",
         rule="D1: each of the 19 words x all 65536 values (worker i takes v % 16 == i) x 8 (quick) / 64 (thorough) generated "
              "register states through RegisterState::Set<>/Get<>: resulting state (every field incl. shadow banks) and read-back "
              "equal the golden layout model, 44 dual-view bit pairs + the TeakLite limit flag agree, Set(Get()) is the identity "
              "without an active loop; D1i sampled values through 'mov #imm16, W', 'push W', 'pop W', 'mov b0l, W' and 'mov #imm5, icr' "
              "(low five bits replaced, loop state untouched unless bit 4 is written 1); D3 after any instruction (every defined first word, quick: "
              "a quarter of them) all 19 words read through the real accessor equal the layout applied to the resulting state; D2: every first word with ar/arp "
              "operands x 96 / 512 generated ar/arp words: register moved and cells accessed by the interpreter equal what the "
              "annotated disassembly names; D2m: the same cases under a generated addressing configuration (both cmd modes, modulo "
              "/ bit reversal / end pointers / 7- and 16-bit steps, registers at buffer edges): every register named with a step "
              "++0/++1/--1/++s/++2/--2 ends where the plain 'modr rN,<same step>[,dmod]' leaves it from the same state; one full pass of the project's generator: the register the disassembler names is "
              "pinned in its window. D1i also runs the read-modify-write forms set / rst / chng #imm16, W (what reads back is the written value, also when the word is unchanged); D4 block-repeat exits (running out / break) at depth 1..4 leave bcn - 1 and lp = (bcn - 1 != 0) in the state and in stt2 / icr. Non-trivial / distinct = (word, value).",
         assumptions=["golden layout transcribed from the pinned register.h and the verifier's flag strings (regression oracle)",
                      "D2 runs with modulo and bit reversal off, end-pointer modes off, stepi=5, stepj=-3, distinct marker addresses; D2m compares "
                      "against the interpreter's own plain modr forms (a metamorphic relation: same printed step => same step), the starred "
                      "steps ++2* / --2* have no plain counterpart and are counted, not compared",
                      "forms naming the same register twice and bkrepsto/bkreprst (frame pointer moves by the frame size) are exempt from the step clause"]))

reg(Spec("C03", "c03_alu.cpp", needs=("shim", "optable_ref"),
         cases={"quick": 40000, "thorough": 700000},
         rule="first word drawn from the ALU families (alm/alm_r6/alu with or,and,xor,add,addh,addl,sub,subh,subl,cmp,cmpu; or_, "
              "and_, add, sub, add_p1, sub_p1, cmp*, moda not/neg/rnd/clr/clrr/inc/dec/copy, mov acc, lim, movr), stratified "
              "by (form, operation); state expanded from a rapidcheck-generated 64-bit value with boundary-biased 40-bit "
              "accumulators / 16-bit operands, sata in {0,1}, all ten flags random, operand cells poked; expected state built by "
              "the independent exact-arithmetic model; compared on every field (frame condition) + no memory write. One case in six first writes the accumulator extension through 'mov ##v, st0 / st1' (a second instruction: the ALU instruction runs on what the status-word write left). Non-trivial "
              "= an accumulator or flag changed; distinct by hash(opcode, second word, state).",
         assumptions=["which operation a first word names is read from the frozen reference's decode table (/verif/ref), not from the table under test (also C04, C08, C09, C10)", "addressing pinned to the linear case (modulo, bit reversal, end-pointer, stp16 off): stepping is C10's subject",
                      "product shifter neutral (ps=0): product reads are C04's subject", "no active loop, no pending interrupt",
                      "bitwise forms (or/and/xor/not, 3-operand or/and) do not saturate on write: as those forms define",
                      "irregular forms modelled as the source documents them: and #imm8 (bits 8-15 kept), 16-bit movr (carry from bit 16, fv cleared)",
                      "out of model (left to C01): clr/clrr register pairing, movr through ar words, alm with 40-bit operand for ops other than or/and/xor/add/cmp/sub"]))

reg(Spec("C04", "c04_mulshift.cpp", needs=("shim", "optable_ref"),
         cases={"quick": 40000, "thorough": 700000},
         rule="first word drawn from the multiply / MAC / product-read / product-sum / shift / rotate / normalize / exponent "
              "families (register and [Rn] forms), stratified by (form, operation); state expanded from a rapidcheck-generated "
              "64-bit value: boundary-biased factors and 33-bit products, ps0/ps1 and hwm in 0..3, s in {0,1}, sata in {0,1}, "
              "sv from {-48..48, +-39/40/41, uniform}; expected state built by the independent exact-arithmetic model; compared on "
              "every field + no memory write. Non-trivial = some field other than pc changed; distinct by hash(opcode, second word, state).",
         assumptions=["addressing pinned to the linear case; no active loop, no pending interrupt",
                      "carry / overflow / latched overflow of two-product sums (app, mma, sqr_sqr_add3, sqr_mpysu_add3a) are not compared: the "
                      "property does not define how two partial carries combine",
                      "|shift amount| == 40: fc0 is not compared (statement: last bit shifted out; hardware-validated code: 0 for left/logical)",
                      "a byte selected by the half-word mode is a non-negative 8-bit factor",
                      "out of model (left to C01/C20): forms addressed through ar/arp words, push/pop Px (C08), CodebookSearch, vtr side effects"]))

reg(Spec("C10", "c10_addr.cpp", needs=("shim", "optable_ref"),
         cases={"quick": 40000, "thorough": 600000},
         rule="addr_step: one instruction that post-modifies an address register (modr, modr_dmod, modr_i2/d2[_dmod], the arp-driven "
              "modr_e/dmod forms reaching all eight step kinds, and ten load/store/ALU forms through [Rn]step), form-stratified; state "
              "from a rapidcheck-generated 64-bit value with per-register mode mix (linear / modulo / bit-reversed / end-pointer), "
              "structured mod values (2^k-1, 2^k, small, uniform 0..511), start addresses at buffer edges / 0x0000 / 0xFFFF; "
              "register afterwards and data cell accessed vs the independent model. ar_step: the same for every form addressed through "
              "ar/arp words (all table entries with ArRn/ArStep/ArpRn/ArpStep operands except the bkrep frame-pointer forms, form-stratified): "
              "the annotated disassembler names registers, steps and modulo-disable flags (dmod, dmodi/j, e/d-mod), each named register "
              "afterwards vs the model (rn_step: the same for every form that names its address register(s) directly -- Rn / R0123 / R45 "
              "with a step, the implicit r0 of the max/min forms -- incl. the two-register multiply forms), and (forms without an offset) every data access goes to the pre-step value of a named register, "
              "bit-reversed where configured; a +s step whose configured value is 0 never moves the register, modulo or not. modulo_walk: 2*(mod+1)+3 consecutive +1 / -1 / "
              "mixed steps for generated (unit, mod, cmd, start): cyclic successor, stays in buffer, alignment bits fixed, one visit per "
              "cell per lap. rn_step includes the register forms max_ge / max_gt / min_le / min_lt Ax, r0 step (r0 is post-modified whether or not the comparison succeeds). Non-trivial = register changed and the case is inside the model; distinct by hash(opcode, state).",
         assumptions=["modulo addressing is specified only for +1 / -1 steps starting inside [base, base+mod]; other steps under modulo, starts "
                      "outside the buffer and the 9-bit narrowing of 16-bit steps are out of model (left to C01)",
                      "the data address 0xFFFF (the single MMIO cell of the test core) is avoided"]))

reg(Spec("C08", "c08_stack.cpp", needs=("shim", "optable_ref"),
         cases={"quick": 30000, "thorough": 500000},
         rule="inverse pairs executed on the real core from states expanded from a rapidcheck-generated 64-bit value (sat = sata = 1, "
              "no active loop, nothing pending): call form {call, callr, calla axl, calla ax} x condition x return form {ret, rets "
              "#k, reti} x cpc {0,1}, return addresses with a carry into the upper word included (full-state equality + the two "
              "stack words); push X ; pop X for 13 push/pop families and every operand value; interrupt entry on int0-2 / "
              "vectored with and without context switch + reti/retic, the handler being the bare return or 'mov #v, stt0 ; reti/retic "
              "<cond>' with a flag condition that holds on v (and often fails on the interrupted stream's flags); cntx s ; cntx r, banke f twice (all 64 flag sets), bankr "
              "(4 forms) twice. A sixth of the plain interrupt cases interrupt 'rep #n ; inc a0' with the request latched in the cycle that executes rep: same final state as without the request. Non-trivial = the pair actually moved something (taken call, non-zero pushed value, banks "
              "differ); distinct by hash of the encoded case.",
         assumptions=["saturation disabled, no hardware loop active, single-instruction repeat off (the property's preconditions)",
                      "product shifter neutral for push/pop of p / Px (the pushed view is the shifted product, pop loads the raw register)",
                      "pusha/popa restore the 32-bit view; the whole accumulator is required back only when it fits 32 bits",
                      "operands the source itself rejects (pc, undefined ArArpSttMod codes) and whole accumulators through a 16-bit push are outside 'pushable'"]))

reg(Spec("C09", "c09_loops.cpp", needs=("shim", "optable_ref"),
         cases={"quick": 4000, "thorough": 80000},
         rule="loop_unroll: programs generated as a small AST (straight-line one/two-word instructions, rep, bkrep nested up to four "
              "levels, counts from an immediate / r5 / r6, all counts 0..40 + {255,256,0x7FFF,0xFFFF} + uniform, dynamic size <= ~4096 "
              "instructions, plus single loops with large counts and a tiny body); the looped program and the harness-unrolled one run "
              "to their end: same registers, same memory, loop state clear. loop_counter: a body storing lc / repc per iteration leaves a "
              "sequence that steps down by one per iteration and ends at 0, with exactly N+1 iterations; the block-repeat variant also "
              "inside 1..3 enclosing two-pass block repeats (counter read at nesting depth 1..4), counts from an immediate, r5, r6 or "
              "the low / high half of b0 preset to a value wider than 32 bits; programs in page 0, 2 or 3. frame_roundtrip: bkrepsto ; "
              "bkreprst ([arrn] and [sp]) with 0..4 active frames holding 18-bit addresses is the identity, also (<= 1 active frame) when the visible counter is overwritten between the save and the restore. loop_unroll bodies may save every active loop frame to the stack and restore them (bkrepsto / bkreprst [sp], the identity); one program in eight starts with a repeat while an enabled interrupt request is already latched (service routine = reti). frame_roundtrip: the pointer register may be configured for modulo / bit-reversed addressing (the frame pointer moves by plain steps; the four words written lie directly below it). Non-trivial = the loop "
              "executed more instructions than the program has words / N >= 1 / >= 1 active frame.",
         assumptions=["a nested block repeat never ends on the same instruction as its enclosing block (a repeated single instruction may be the "
                      "last instruction of a block, the rep instruction itself never is)", "interrupts off; bodies contain no control flow and do not touch lc/repc/sp",
                      "the iteration in which the counter is observed may see the value before or after that iteration's decrement"]))

reg(Spec("C17", "c17_reset.cpp", needs=("shim", "optable"),
         cases={"quick": 120, "thorough": 3000},
         rule="rapidcheck-generated pairs of API histories (P, Q), each <= 40 calls drawn from ProgramWrite / DataWrite / targeted "
              "MMIOWrite (ICU routing, trigger, vectors; timer start/config incl. running timers and the directly writable counter "
              "mirror cells; DMA channel window; AHBM; APBP "
              "reply/semaphore/interrupt-disable; BTDMP enable/FIFO; MIU pages/base) / SendData / RecvData / Set/Clear/MaskSemaphore / "
              "driver-style composites (audio port: clock word, FIFO words, enable, then ~200 or ~4000 idle cycles, the frame period being "
              "4096; timer: start, configuration with restart, optionally MU off again, a few cycles; DMA: a small external -> DSP transfer "
              "on channel k, the AHBM connection / unit size reprogrammed or not) / whole-register-state pokes / "
              "Run(<=200) of small programs that leave latches, the idle flag, banks and loop frames "
              "dirty / AHBM host accessors; a quarter of the cases on caller-supplied (zeroed) DSP memory; two real instances whose heap was pre-filled with different byte patterns; mode fresh: Q "
              "straight after construction on both; mode reset: construct;P;Reset;Q vs construct;Reset;Q; the observation (all "
              "registers incl. banks, memory digest, masked read-back of ~140 modelled MMIO registers, host views) and the ordered "
              "callback log are compared after every call of Q; a dozen never-written plain-storage cells are read back before Q. 'loadraw' = the host (optionally after Reset()) stores bytes through the memory pointer it fetched at construction / into its own buffer; programs include a codebook search (hidden operand). A quarter of the targeted writes to plain configuration registers use one of four values per register (the same value before and after a Reset). Non-trivial = P dirties >= 3 kinds of state and Q is non-empty "
              "(fresh mode: Q non-empty); distinct by hash of the encoded case.",
         assumptions=["backing-storage bits of MMIO bit-field cells that no peripheral models are masked out of the observation",
                      "the external (AHBM) world is the caller's: both sides continue with a fresh external memory after Reset",
                      "DMA is configured but not started here (C13/C18 start it); channel select < 8, z/x/y page in {0,1}"]))

reg(Spec("C12", "c12_mmio.cpp", needs=("shim",),
         cases={"quick": 1500, "thorough": 40000},
         rule="rapidcheck-generated histories (<=80 ops) on one real Teakra instance (Reset per case, no Run): Write(path, offset, "
              "value) with offsets 70 % from the documented register list, 15 % their +-1/+-2 undocumented neighbours, 15 % "
              "uniform 0..0x7FF; values uniform U {0, 0xFFFF, one-hot, 0x40C0, 7/8/9}; paths = host accessor, any of 31 mirrors, "
              "DSP data path at the (relocatable) window base; CMDi reads, host SendData / SetSemaphore, and a bounded DMA start "
              "through 0x1DE = 0x40C0. After every op all ~130 side-effect-free documented registers are read back (through "
              "varying paths) and compared, on their documented bits, with the register-map model transcribed from the *.md "
              "files. Half of the histories concentrate 70% of their writes on one peripheral block (timer 0/1, APBP, AHBM, MIU, DMA, ICU, audio 0/1, the coupling registers) with configuration values built from the documented fields. Host-side facade queries (DMAChan0Get*High, AHBMGet*) are interleaved with the register accesses: they return channel 0's words / the AHBM field and change no read-back. DMA starts also from external memory through a generated AHBM channel (bursts, transfers ending inside a burst); host ClearSemaphore / MaskSemaphore are interleaved. Non-trivial = an op changed the model; distinct by hash of the op list.",
         assumptions=["timer restart is only written together with a count mode < 4 (watchdog modes are a deliberate ASSERT)",
                      "bits of bit-field registers that no document describes are not compared; 0x0D8 bit 9 (S') is not compared",
                      "the DSP data path is used only while z_page = 0 and base + offset fits 16 bits (otherwise it is not the window)",
                      "memory effects of the DMA start are C13's subject; here only the register file and the ICU bit are compared"]))

reg(Spec("C13", "c13_dma.cpp", needs=("shim",),
         cases={"quick": 4000, "thorough": 80000},
         rule="rapidcheck-generated histories of 1..3 transfers (later ones often on the channel of the first) on one real Teakra "
              "instance: channel 0..7, size0/1/2 from {0,1,2,1..24/8/5} (one DSP->DSP transfer in 24 is a single long row with SIZE0 at a width boundary: 0xFFFF, 0xFFFE, 0x8001, 0x8000, 0x7FFF, ... up to 65 535 elements), source / destination steps from {0, unit, 2, small, "
              "<400; one in ten has the top bit set: 0x8000, 0xFFFE, ... added to the address as an unsigned number, the transfer shrunk until the walk fits}, word / double-word mode, spaces DSP->DSP (30 % deliberately overlapping), ext->DSP, DSP->ext through an AHBM "
              "channel with matching unit size and direction, bursts x4/x8 with step = unit size and whole bursts, start "
              "addresses anywhere in the 17-bit data space (bank boundary straddled), started through the host accessor or the "
              "DSP data path. Oracle: element sequence of dma.md applied in order to a model memory / model external memory; "
              "compared: whole 512 KiB image, ordered external access log, ICU bit 15; a transfer that makes more than 8x the documented number of memory accesses is stopped through the access observer and reported as not completing. A quarter of the cases are preceded by a burst read that ended inside a burst, then Reset(). c_binding_ahbm (10% of the cases): AHBM channel configuration, the host's AHBM accessors and short word / double-word transfers between DSP and external memory through a C++ facade instance and through a C-binding context (external callbacks as C function pointers): identical ordered external access logs, returned values and DSP memory. Non-trivial = >= 2 dimensions with more "
              "than one element, or overlap; distinct by hash of the encoded history.",
         assumptions=["DSP-side addresses stay inside the 17-bit data space (beyond it is C18's subject); steps are added to the address as-is (unsigned)",
                      "external accesses are naturally aligned, unit size matched to the element size; bursts only with step = unit size and whole bursts",
                      "at most one external side per transfer (a DMA channel is bound to one AHBM channel with one direction flag)",
                      "'exactly once' for the interrupt is observable only as 'pending after completion, not pending before' (the ICU bit does not count)"]))

reg(Spec("C11", "c11_memviews.cpp", needs=("shim", "optable"),
         cases={"quick": 2500, "thorough": 40000},
         rule="rapidcheck-generated histories (<=24 steps) on a real Teakra instance (own memory or caller-supplied buffer): each step "
              "picks a writer among 12 paths (raw bytes, ProgramWrite, DataWrite with/without bypass, DataWriteA32, guest stores "
              "through [Rn], [page:imm8], [imm16], [r7+imm16], [r7+imm7s], push, movd), an address biased to space and window edges, "
              "a bank (MIU_ZPAGE) and an MMIO window base (0x8000, 0, 0xF800, 0xFFFF, 0xFC00, unaligned, uniform); then every "
              "applicable reader among 12 paths must return the byte-array model's value and the whole 512 KiB array must equal "
              "the model; MMIO clause on 11 plain registers: DSP-path access reaches the register, leaves the memory underneath, "
              "bypass does the opposite, guest load sees the register; the window is moved through the host accessor or, half of the "
              "time (bank 0), by a DSP-path write to the window-base register inside the window it moves, which must not reach the "
              "memory underneath either. A quarter of the MMIO-clause steps repeat the DSP-path access under paging mode 1 with generated X / Y pages (register reached, memory digest unchanged). Non-trivial = non-zero value written or MMIO clause "
              "exercised; distinct by hash of the encoded history.",
         assumptions=["page mode 0 (the property's default paging mode); z_page in {0,1}; the MMIO clause is exercised with z_page = 0 (else ToMMIO asserts)",
                      "A32 accessors take a 17-bit data address (upper bits ignored, as documented by their mask)",
                      "eight scratch program words at 0x3FF00 hold the guest instruction under execution"]))

reg(Spec("C07", "c07_interrupts.cpp", needs=("shim", "optable"),
         cases={"quick": 1500, "thorough": 40000},
         rule="rapidcheck-generated histories (<=60 ops) on one real Teakra instance whose memory is a nop sled: Step(1..5 "
              "instructions, each a separate Run(1)), Trigger / Ack (bit masks biased to one-hot, all, pairs), SetEnable(line) / "
              "SetVectorEnable / SetVector(irq, address, context flag), PokeCore (ie, im0-2, imv, ic0-2, crep, ccnta, cpc + "
              "distinguishable banks), Exec(eint | dint | reti | retic | rep #n), TimerStart(timer, 1..5 cycles), host SendData, a "
              "one-word DMA start, the audio port running empty after 4096-cycle frames. After every instruction step the full "
              "register state, the two stack words at sp and the controller's pending register are compared with the independent "
              "ICU + core interrupt model (context stores included). Instruction steps include eint / dint / reti / retic / rep and the program writing st0, st2, mod3 or stt2 with an immediate (writable fields take the value, the pending latches and everything outside the word stay). Vectored handlers also lie in program pages 2 / 3 (all 18 address bits of a vector matter). The program also writes icr ('mov #imm5, icr'); 'idlerun': the program waits on a self-branch while a timer of 1..6 cycles runs out inside ONE Run call of 2..40 cycles (same boundaries as stepping). Non-trivial = history with >= 1 handler entry; distinct by "
              "hash of the op list.",
         assumptions=["when one trigger raises several vectored IRQs the property does not say whose vector is latched: any of them is accepted",
                      "vector addresses and the sled stay below the data area (program and data space share one array)",
                      "entries are compared per instruction step; the 4096-cycle audio frames are run in one Run call and compared at their end"]))

reg(Spec("C06", "c06_slicing.cpp", needs=("shim", "optable"),
         cases={"quick": 1200, "thorough": 40000},
         rule="system cases expanded from a rapidcheck-generated 64-bit value: program = 0..12 fillers + idle self-branch (always / "
              "true condition / false condition + fall-through) or busy loop, four handlers with a generated subset of {count, read "
              "ICU pending, acknowledge, restart timer0, push an audio word, mailbox reply, semaphore, early eint, 0..30 fillers} "
              "ending in reti / retic / an idle loop; ICU routing of all 16 IRQs incl. vectored + context switch; core enables; both "
              "timers in all four modes with start values constructed around the first idle cycle (+-3) or from {0..40, <3000, "
              "<0x30000}, MU / pause bits; audio port with 0..16 queued words; n in [1, 20000]; 0..4 host events (SendData, "
              "Set/Clear/MaskSemaphore, software trigger, DataWrite, RecvData) at generated cycle positions. The false-condition self-branch falls through into ten instructions with visible effects before the real idle loop. Three runs from Reset: "
              "one Run per segment, a generated refinement with zero-length calls, n x Run(1) (n <= 5000) or a second refinement; "
              "full observation + ordered callback log compared at every boundary. One budget in twelve lies between 66 000 and 206 000 cycles (slices above 2^16). A third of the cases also queue / enable the second audio port (no audio callback installed on it). Non-trivial = idle self-branch reached and a "
              "handler ran or an audio frame was delivered; distinct by hash of the encoded case.",
         assumptions=["a self-branch is never the last instruction of an active block repeat nor the target of rep (excluded by the property)",
                      "Reset() between the three runs relies on C17 (Reset equals a fresh machine)"]))

reg(Spec("C18", "c18_safety.cpp", needs=("shim", "optable"),
         cases={"quick": 3000, "thorough": 60000},
         fuzz={"define": "-DC18_LIBFUZZER", "runs": {"quick": 15000, "thorough": 1200000}, "workers": {"quick": 8, "thorough": 16}, "max_len": 1024},
         technique="property-based testing (rapidcheck structured op sequences) + coverage-guided fuzzing (libFuzzer, ASan/UBSan) with the same oracle",
         rule="rapidcheck-generated sequences (<=40 ops) on one real Teakra facade built with ASan + UBSan + libstdc++ assertions "
              "(stack-use-after-return detection on): MMIOWrite / MMIORead of any offset (biased to the bound registers) with any "
              "16-bit value, DataWrite/DataRead with and without bypass, ProgramWrite, whole-register-state pokes within hardware "
              "widths (any pc incl. 0x3FFF8..0x3FFFF, 0xFFFC.., any 4-bit program page), Run(1..256), in-contract host calls "
              "(mailbox, semaphore, AHBM accessors with arbitrary 32-bit addresses, A32 accessors), programs of 1..12 words "
              "stratified over the decode table written at the current pc, DMA starts with arbitrary channel select, 32-bit "
              "addresses, sizes, steps, spaces and AHBM bindings; plus single_step: one table-stratified instruction (and a following "
              "word) on one boundary-biased full-width register state, one cycle (10x as many cases). Oracle: access observer (every SharedMemory access < 0x40000 "
              "words), outcome in {return, UnimplementedException, deliberate ASSERT}, no sanitizer report (worker death = "
              "violation with the saved case). Non-trivial = the sequence ran instructions or reached a peripheral and was not "
              "abandoned for its access budget (2^14 accesses); distinct by hash of the op list.",
         assumptions=["in-contract host calls only: channel / AHBM index < 3, program address < 0x40000, callbacks installed",
                      "MSan is not usable in this image; uninitialised reads are attacked by C17's heap-fill differential instead",
                      "instance reuse across cases relies on Reset (C17); every sanitizer death is re-confirmed from the saved case in a fresh process"]))

reg(Spec("C19", "c19_threads.cpp", variant="tsan", needs=("optable", "lib"), workers=8,
         cases={"quick": 80, "thorough": 1500},
         technique="property-based testing (rapidcheck-generated schedules) executed on two real threads under ThreadSanitizer",
         rule="rapidcheck-generated schedules: 200-400 host operations (SendData with per-channel sequence numbers, RecvData, ready / "
              "empty polls, PeekRecvData, Set/Clear/Mask/GetSemaphore), each followed by a generated pause (none, yield, spin "
              "2..2000), DSP Run() slice sizes from {1,2,3,7,16,64,200,1000}, re-entrant host callbacks (RecvData / GetSemaphore / "
              "SendData from inside a handler); the DSP thread runs an echo program whose APBP handler reads all CMDi, replies, "
              "echoes the semaphore, rewrites the interrupt-disable register and acknowledges (a generated subset of the channels is "
              "read; the others stay full after their first send; in half of the schedules the handler reads CMDi only when the "
              "status register flags it ready, in half the host reads only after RecvDataIsReady, in half the APBP interrupt switches the "
              "register context (ic0 = 1, retic), the main program may leave repc != 0, the routine may save / restore st2, the host's "
              "semaphore handler may acknowledge inside the callback, the handler may disable a generated subset of the channels' "
              "interrupts (those channels are then exempt from the delivery / last-value clauses), the request may be routed to the "
              "vectored line with its handler at 0x10400), Sync ops = quiescent points "
              "(host waits for >= 4000 further DSP cycles, then the last value of every echoed channel must have made the round "
              "trip and be consumed or still flagged ready). Oracle: ThreadSanitizer report "
              "(exit code 66) = violation; per reading thread the values read are sent values in non-decreasing order; after "
              "the join a fixed single-threaded drain (64 x Run(256)) must leave the last value of each channel on both sides "
              "and >= 1 handler entry; then one more SendData per channel, each followed by 4 x Run(128), must each be followed by a new "
              "handler entry (also into a still-full mailbox) and, where the DSP echoes, by a new host callback (also into a still-full "
              "reply mailbox), and its value must be observed. In half of the schedules timer 0 (auto-restart, period 7..15) interrupts on int1 with its own service routine, competing with the mailbox requests. Semaphore epilogue: with every bit masked on the host side the host sets two bits, the DSP routine echoes them into its semaphore, and the host must read them (the mask gates the interrupt, not the value). Non-trivial = both threads observed each other's progress >= 3 times and >= 1 send; "
              "distinct by hash of the schedule.",
         assumptions=["the OS scheduler is not owned: interleaving coverage is statistical (pauses and slice sizes perturb it); the race "
                      "clause does not share this weakness because ThreadSanitizer is happens-before based",
                      "'eventually' is replaced by a bounded drain / 4000 DSP cycles at a quiescent point (an interrupt is taken within a handler's length)",
                      "a schedule that does not finish within 60 s (normally < 1 s) makes the worker save it and exit; it is a violation only if three "
                      "replays in fresh processes hang as well (deadlock clause)",
                      "the outcome of a schedule depends on the OS interleaving, the oracle does not: a logic failure counts once the same schedule "
                      "fails again within 40 re-runs (no shrinking); otherwise it is reported as a note"]))

# Properties not (yet) claimed. Kept current by hand; every id in properties.jsonl is either in SPECS or here.
_PENDING = "check not built yet in this round; planned with property-based testing per DESIGN.md"
NOT_APPLICABLE = [{"property_id": "C%02d" % i, "reason": _PENDING} for i in range(1, 21) if "C%02d" % i not in SPECS]
