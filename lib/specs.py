"""The table of registered checks: one Spec per property (cases are *per worker*)."""
from vdriver import Spec

SPECS = {}


def reg(spec):
    SPECS[spec.pid] = spec


reg(Spec("C15", "c15_timer.cpp", needs=("lib",),
         cases={"quick": 40000, "thorough": 1500000},
         rule="rapidcheck-generated histories (<=80 ops: mode/start/pause/MU writes, Restart, Tick x1..6, TickEvent, "
              "Skip(k) with k resolved against the horizon the timer reports: 0, 1, h-1, h, h/2, random) on the real "
              "Teakra::Timer; oracle = cycle-exact model + twin doing k x Tick() for every Skip(k). Non-trivial = the "
              "history contains a Skip(k>=1) on a running timer or a 1->0 crossing; distinct by hash of the op list.",
         assumptions=["time scale stays 0 and count mode < 4 (other values are deliberate ASSERTs in Tick/Restart)",
                      "Restart in free-running mode is outside the property's statement: reload or no-op are both accepted",
                      "mirror registers: while MU=1 a stale mirror may or may not catch up on an op that leaves the counter unchanged"]))

# Properties not (yet) claimed. Kept current by hand; every id in properties.jsonl is either in SPECS or here.
_PENDING = "check not built yet in this round; planned with property-based testing per DESIGN.md"
NOT_APPLICABLE = [{"property_id": "C%02d" % i, "reason": _PENDING} for i in range(1, 21) if "C%02d" % i not in SPECS]
