// C13 -- a DMA transfer copies exactly the documented 3-D strided element sequence.
// Generated histories of 1..3 transfers (possibly on the same channel) on one real Teakra instance: sizes, steps, word /
// double-word mode, source and destination in DSP data memory or external memory (through an AHBM channel with matching
// unit size, direction, optional burst), overlapping ranges. The reference model (written from dma.md / ahbm.md) applies
// the element sequence in order to a model memory and a model external memory; compared: the whole 512 KiB DSP memory
// image, the ordered external access log, the DMA interrupt.
#include "shared_memory.h"
#include "teakra/teakra_c.h"
#include "sysinst.h"
#include "vf.h"

namespace {

using sysinst::Sys;

struct Xfer {
    unsigned channel = 0;
    uint32_t src = 0, dst = 0;
    uint16_t size[3] = {1, 1, 1};
    uint16_t sstep[3] = {1, 0, 0}, dstep[3] = {1, 0, 0};
    bool dword = false;
    bool src_ext = false, dst_ext = false;
    unsigned ahbm_src = 0, ahbm_dst = 1; // AHBM channel used for the external side(s)
    unsigned burst = 0;                  // 0: x1, 1: x4, 2: x8 (external side)
    unsigned start_path = 0;             // 0 host MMIO accessor, 1 DSP data path
    uint64_t fill_seed = 0;              // source data
};
using Case = std::vector<Xfer>;

// work budget on the emulator's own memory accesses (access observer hook): a transfer that does not stop after the
// documented number of elements would otherwise hang the worker
uint64_t g_accesses = 0, g_access_budget = ~0ull;
bool budget_observer(uint32_t, bool) {
    if (++g_accesses > g_access_budget)
        throw std::runtime_error("access budget exceeded");
    return true;
}

Sys& sys() {
    static Sys* s = [] {
        Sys* n = new Sys;
        Teakra::SharedMemory::verif_observer = budget_observer;
        n->on_external = [] {
            if (++g_accesses > g_access_budget)
                throw std::runtime_error("access budget exceeded");
        };
        return n;
    }();
    return *s;
}

std::string encode(const Case& c) {
    std::string s;
    for (auto& x : c) {
        s += "xfer " + vf::hex(x.channel) + " " + vf::hex(x.src) + " " + vf::hex(x.dst);
        for (int i = 0; i < 3; ++i)
            s += " " + vf::hex(x.size[i]);
        for (int i = 0; i < 3; ++i)
            s += " " + vf::hex(x.sstep[i]);
        for (int i = 0; i < 3; ++i)
            s += " " + vf::hex(x.dstep[i]);
        s += " " + vf::hex(x.dword) + " " + vf::hex(x.src_ext) + " " + vf::hex(x.dst_ext) + " " + vf::hex(x.ahbm_src) + " " + vf::hex(x.ahbm_dst) + " " +
             vf::hex(x.burst) + " " + vf::hex(x.start_path) + " " + vf::hex(x.fill_seed) + "\n";
    }
    return s;
}
Case decode(const std::string& text) {
    Case c;
    for (auto& l : vf::lines(text)) {
        auto t = vf::split_ws(l);
        if (t.size() < 21 || t[0] != "xfer")
            continue;
        Xfer x;
        size_t k = 1;
        x.channel = (unsigned)vf::unhex(t[k++]) & 7;
        x.src = (uint32_t)vf::unhex(t[k++]);
        x.dst = (uint32_t)vf::unhex(t[k++]);
        for (int i = 0; i < 3; ++i)
            x.size[i] = (uint16_t)vf::unhex(t[k++]);
        for (int i = 0; i < 3; ++i)
            x.sstep[i] = (uint16_t)vf::unhex(t[k++]);
        for (int i = 0; i < 3; ++i)
            x.dstep[i] = (uint16_t)vf::unhex(t[k++]);
        x.dword = vf::unhex(t[k++]);
        x.src_ext = vf::unhex(t[k++]);
        x.dst_ext = vf::unhex(t[k++]);
        x.ahbm_src = (unsigned)vf::unhex(t[k++]) % 3;
        x.ahbm_dst = (unsigned)vf::unhex(t[k++]) % 3;
        x.burst = (unsigned)vf::unhex(t[k++]) % 3;
        x.start_path = (unsigned)vf::unhex(t[k++]) & 1;
        x.fill_seed = vf::unhex(t[k++]);
        c.push_back(x);
    }
    return c;
}

// ---- reference model (dma.md: three nested counters; zero size == one; double-word mode counts 2 per element and
//      aligns both addresses down; steps are added to the address as-is) ------------------------------------------------
struct Elem {
    uint32_t src, dst;
};
std::vector<Elem> element_sequence(const Xfer& x) {
    std::vector<Elem> out;
    uint32_t s0 = x.size[0] ? x.size[0] : 1, s1 = x.size[1] ? x.size[1] : 1, s2 = x.size[2] ? x.size[2] : 1;
    uint32_t per0 = x.dword ? (s0 + 1) / 2 : s0; // a double word counts as two
    uint32_t src = x.src, dst = x.dst;
    for (uint32_t c2 = 0; c2 < s2; ++c2) {
        for (uint32_t c1 = 0; c1 < s1; ++c1) {
            for (uint32_t c0 = 0; c0 < per0; ++c0) {
                out.push_back({src, dst});
                bool last0 = c0 + 1 == per0, last1 = c1 + 1 == s1, last2 = c2 + 1 == s2;
                if (!last0) {
                    src += x.sstep[0];
                    dst += x.dstep[0];
                } else if (!last1) {
                    src += x.sstep[1];
                    dst += x.dstep[1];
                } else if (!last2) {
                    src += x.sstep[2];
                    dst += x.dstep[2];
                }
            }
        }
    }
    return out;
}

uint32_t last_offset(const Xfer& x, bool src_side) {
    auto seq = element_sequence(x);
    uint32_t base = src_side ? x.src : x.dst, mx = 0;
    for (auto& e : seq)
        mx = std::max(mx, (src_side ? e.src : e.dst) - base);
    return mx;
}

rc::Gen<Xfer> genXfer() {
    using namespace rc;
    return gen::map(gen::tuple(gen::resize(100, gen::arbitrary<uint64_t>())), [](std::tuple<uint64_t> t) {
        vf::Stream s(std::get<0>(t));
        Xfer x;
        x.channel = (unsigned)s.below(8);
        x.dword = s.chance(1, 3);
        x.src_ext = s.chance(1, 4);
        x.dst_ext = !x.src_ext && s.chance(1, 3); // one DMA channel is served by one AHBM channel: at most one external side
        x.fill_seed = s.next();
        x.start_path = (unsigned)s.bits(1);
        auto size_gen = [&](unsigned cap) {
            switch (s.below(6)) {
            case 0:
                return 0u;
            case 1:
                return 1u;
            case 2:
                return 2u;
            default:
                return (unsigned)(1 + s.below(cap));
            }
        };
        x.size[0] = (uint16_t)size_gen(24);
        x.size[1] = (uint16_t)size_gen(8);
        x.size[2] = (uint16_t)size_gen(5);
        // one transfer in 24: a single long row whose length sits at a width boundary of the 16-bit size register
        const bool long_row = !x.src_ext && !x.dst_ext && s.chance(1, 24);
        if (long_row) {
            static const uint16_t edge[] = {0xFFFF, 0xFFFF, 0xFFFE, 0x8001, 0x8000, 0x7FFF, 0x4001, 0x1001};
            x.size[0] = s.chance(3, 4) ? edge[s.below(8)] : (uint16_t)(0x1000 + s.below(0xF000));
            x.size[1] = (uint16_t)s.below(2);
            x.size[2] = (uint16_t)s.below(2);
        }
        const unsigned unit = x.dword ? 4 : 2; // external unit size in bytes, matched to the element size
        x.burst = (x.src_ext || x.dst_ext) && s.chance(1, 3) ? 1 + (unsigned)s.below(2) : 0;
        auto step_gen = [&](bool ext) -> uint16_t {
            if (s.chance(1, 10)) {
                // a step with the top bit set: added to the 32-bit address as it stands (dma.md), not as a negative number
                static const uint16_t big[] = {0x8000, 0x8002, 0xFFFE, 0xFFFC, 0xC000, 0x8004};
                uint16_t v = s.chance(2, 3) ? big[s.below(6)] : (uint16_t)(0x8000 + s.below(0x8000));
                if (ext)
                    v &= (uint16_t)~(unit - 1);
                else if (s.chance(1, 3))
                    v |= 1;
                return v;
            }
            if (ext) {
                // naturally aligned external addresses: steps are multiples of the unit size
                static const unsigned m[] = {1, 1, 1, 2, 3, 8};
                return (uint16_t)(unit * m[s.below(6)]);
            }
            switch (s.below(8)) {
            case 0:
                return 0;
            case 1:
            case 2:
                return x.dword ? 2 : 1;
            case 3:
                return 2;
            case 4:
                return (uint16_t)(1 + s.below(16));
            case 5:
                return (uint16_t)(s.below(400));
            default:
                return (uint16_t)(x.dword ? 2 * (1 + s.below(4)) : 1 + s.below(4));
            }
        };
        for (int i = 0; i < 3; ++i) {
            x.sstep[i] = step_gen(x.src_ext);
            x.dstep[i] = step_gen(x.dst_ext);
        }
        if (long_row) {
            // keep the walk inside the 17-bit data space: unit or zero steps along the row
            x.sstep[0] = (uint16_t)(s.chance(1, 4) ? 0 : (x.dword ? 2 : 1));
            x.dstep[0] = (uint16_t)(s.chance(1, 4) ? 0 : (x.dword ? 2 : 1));
        }
        if (x.burst) {
            // bursts: the property speaks about "the step equals the unit size"; whole bursts only
            unsigned blen = x.burst == 1 ? 4 : 8;
            for (int i = 0; i < 3; ++i) {
                if (x.src_ext)
                    x.sstep[i] = (uint16_t)unit;
                else if (x.sstep[i] >= 0x8000)
                    x.sstep[i] = (uint16_t)(unit / 2); // whole bursts must survive: no shrinking of burst transfers below
                if (x.dst_ext)
                    x.dstep[i] = (uint16_t)unit;
                else if (x.dstep[i] >= 0x8000)
                    x.dstep[i] = (uint16_t)(unit / 2);
            }
            unsigned n0 = blen * (1 + (unsigned)s.below(3));
            x.size[0] = (uint16_t)(x.dword ? 2 * n0 : n0);
            x.size[1] = (uint16_t)(1 + s.below(2));
            x.size[2] = 1;
        }
        // large steps: shrink the transfer until the DSP-side walk fits the 17-bit data space
        for (int guard = 0; guard < 40 && !x.burst; ++guard) {
            bool fits = (x.src_ext || last_offset(x, true) + 2 <= 0x20000) && (x.dst_ext || last_offset(x, false) + 2 <= 0x20000);
            if (fits)
                break;
            int k = x.size[2] > 1 ? 2 : x.size[1] > 1 ? 1 : 0;
            x.size[k] = (uint16_t)(x.size[k] / 2);
        }
        // start addresses: DSP side anywhere in the 17-bit data space that keeps the walk inside it; external side aligned
        auto place = [&](bool ext, bool src_side) {
            uint32_t need = last_offset(x, src_side) + (x.dword ? 2 : 1);
            if (ext) {
                uint32_t a = (uint32_t)(0x10000000u + s.below(0x8000)) & ~(unit - 1);
                return a;
            }
            uint32_t room = need >= 0x20000 ? 0 : 0x20000 - need;
            uint32_t a = room ? (uint32_t)s.below(room) : 0;
            if (s.chance(1, 4) && room > 0x10010)
                a = 0xFFF0 + (uint32_t)s.below(0x20); // straddle the bank boundary
            if (x.dword && s.chance(3, 4))
                a &= ~1u;
            return a;
        };
        x.src = place(x.src_ext, true);
        x.dst = place(x.dst_ext, false);
        if (!x.src_ext && !x.dst_ext && s.chance(3, 10)) {
            // deliberate overlap
            uint32_t need = last_offset(x, false) + 2;
            uint32_t d = x.src + (uint32_t)s.below(8);
            if (d + need < 0x20000)
                x.dst = d;
        }
        x.ahbm_src = (unsigned)s.below(3);
        x.ahbm_dst = (x.ahbm_src + 1 + (unsigned)s.below(2)) % 3;
        return x;
    });
}

struct ExtEvent {
    char kind;
    unsigned bits;
    uint32_t addr, value;
    bool operator==(const ExtEvent& o) const {
        return kind == o.kind && bits == o.bits && addr == o.addr && value == o.value;
    }
};

vf::Result check(const Case& cs) {
    Sys& s = sys();
    if (!cs.empty() && (cs[0].fill_seed & 3) == 0) {
        // what an earlier use of the machine may leave behind: a burst read that ended inside a burst (prefetched units still queued
        // in the bridge). The Reset() that starts the case proper makes the machine a fresh one (C17), so nothing of it may show
        vf::klass("case preceded by a transfer that ended inside a burst, then Reset");
        const unsigned k = (unsigned)((cs[0].fill_seed >> 2) % 3), ch = (unsigned)((cs[0].fill_seed >> 4) % 8), dw = (unsigned)((cs[0].fill_seed >> 7) & 1);
        auto W0 = [&](uint16_t off, uint16_t v) { s.t->MMIOWrite(off, v); };
        W0((uint16_t)(0x0E2 + 6 * k), (uint16_t)(((dw ? 2 : 1) << 4) | ((1 + ((cs[0].fill_seed >> 8) & 1)) << 1)));
        W0((uint16_t)(0x0E4 + 6 * k), 0);
        W0((uint16_t)(0x0E6 + 6 * k), (uint16_t)(1u << ch));
        W0(0x1BE, (uint16_t)ch);
        W0(0x1C0, 0x0100);
        W0(0x1C2, 0x1000);
        W0(0x1C4, 0x7000);
        W0(0x1C6, 0);
        W0(0x1C8, (uint16_t)(dw ? 6 : 3));
        W0(0x1CA, 1);
        W0(0x1CC, 1);
        W0(0x1CE, (uint16_t)(dw ? 4 : 2));
        W0(0x1D0, (uint16_t)(dw ? 2 : 1));
        W0(0x1DA, (uint16_t)(7 | (dw ? 0x0400 : 0)));
        s.guarded([&] { s.t->MMIOWrite(0x1DE, 0x40C0); });
    }
    s.t->Reset();
    s.log.clear();
    s.ext.bytes.clear();
    std::vector<uint8_t> model(Teakra::DspMemorySize, 0);
    sysinst::ExtMem ext_model;
    auto mget = [&](uint32_t data_addr) { return (uint16_t)(model[2 * (0x20000 + data_addr)] | (model[2 * (0x20000 + data_addr) + 1] << 8)); };
    auto mput = [&](uint32_t data_addr, uint16_t v) {
        model[2 * (0x20000 + data_addr)] = (uint8_t)v;
        model[2 * (0x20000 + data_addr) + 1] = (uint8_t)(v >> 8);
    };
    std::string trace;
    bool nontrivial = false;
    for (size_t xi = 0; xi < cs.size(); ++xi) {
        const Xfer& x = cs[xi];
        auto seq = element_sequence(x);
        if (seq.size() > 70000)
            continue;
        // domain guard (decoded replay files may carry anything): DSP side inside the 17-bit data space
        bool ok = true;
        for (auto& e : seq) {
            if (!x.src_ext && (e.src | 1) >= 0x20000)
                ok = false;
            if (!x.dst_ext && (e.dst | 1) >= 0x20000)
                ok = false;
        }
        if (!ok) {
            vf::klass("transfer outside the DSP data space (C18's subject), skipped");
            continue;
        }
        const unsigned unit = x.dword ? 4 : 2;
        trace += std::string(x.dword ? "dw" : "w") + " ch" + std::to_string(x.channel) + " " + (x.src_ext ? "ext" : "dsp") + "->" + (x.dst_ext ? "ext" : "dsp") +
                 " size " + std::to_string(x.size[0]) + "x" + std::to_string(x.size[1]) + "x" + std::to_string(x.size[2]) + (x.burst ? " burst" : "") + "; ";
        // source data
        vf::Stream fs(x.fill_seed);
        for (auto& e : seq) {
            for (unsigned k = 0; k < (x.dword ? 2u : 1u); ++k) {
                if (x.src_ext) {
                    for (unsigned b = 0; b < 2; ++b) {
                        uint32_t a = (e.src & ~(unit - 1)) + 2 * k + b;
                        uint8_t v = (uint8_t)fs.bits(8);
                        s.ext.put(a, v);
                        ext_model.put(a, v);
                    }
                } else {
                    uint32_t a = x.dword ? ((e.src & ~1u) + k) : e.src;
                    uint16_t v = (uint16_t)fs.bits(16);
                    s.t->DataWriteA32(a, v);
                    mput(a, v);
                }
            }
        }
        // configuration through MMIO
        auto W = [&](uint16_t off, uint16_t v) { s.t->MMIOWrite(off, v); };
        for (unsigned a = 0; a < 3; ++a)
            W(0x0E6 + 6 * a, 0);
        if (x.src_ext) {
            W(0x0E2 + 6 * x.ahbm_src, (uint16_t)(((x.dword ? 2 : 1) << 4) | (x.burst << 1)));
            W(0x0E4 + 6 * x.ahbm_src, 0x0000); // read from external memory
            W(0x0E6 + 6 * x.ahbm_src, (uint16_t)(1u << x.channel));
        }
        if (x.dst_ext) {
            unsigned a = x.ahbm_src;
            W(0x0E2 + 6 * a, (uint16_t)(((x.dword ? 2 : 1) << 4) | (x.burst << 1)));
            if (!x.src_ext)
                W(0x0E4 + 6 * a, 0x0100); // write to external memory
            W(0x0E6 + 6 * a, (uint16_t)(1u << x.channel));
        }
        if (x.src_ext && x.dst_ext) {
            vf::klass("ext->ext (one AHBM channel, direction flag cannot match both sides), skipped");
            continue;
        }
        W(0x1BE, (uint16_t)x.channel);
        W(0x1C0, (uint16_t)x.src);
        W(0x1C2, (uint16_t)(x.src >> 16));
        W(0x1C4, (uint16_t)x.dst);
        W(0x1C6, (uint16_t)(x.dst >> 16));
        for (int i = 0; i < 3; ++i) {
            W(0x1C8 + 2 * i, x.size[i]);
            W(0x1CE + 4 * i, x.sstep[i]);
            W(0x1D0 + 4 * i, x.dstep[i]);
        }
        W(0x1DA, (uint16_t)((x.src_ext ? 7 : 0) | ((x.dst_ext ? 7 : 0) << 4) | (x.dword ? 0x400 : 0)));
        W(0x202, 0x8000); // acknowledge a previous DMA interrupt
        if ((s.t->MMIORead(0x200) & 0x8000) != 0)
            return vf::Result::fail("C13:irq:before", "DMA interrupt pending before the transfer was started (" + trace + ")");
        size_t log0 = s.log.size();
        // ---- expected ----
        std::vector<ExtEvent> want_log;
        const unsigned blen = x.burst == 0 ? 1 : (x.burst == 1 ? 4 : 8);
        unsigned rd_q = 0, wr_q = 0; // elements left in the read burst queue / buffered in the write burst
        uint32_t wr_start = 0;
        std::vector<uint32_t> wr_buf;
        for (auto& e : seq) {
            uint32_t value = 0;
            if (x.src_ext) {
                if (rd_q == 0) {
                    for (unsigned j = 0; j < blen; ++j) {
                        uint32_t a = e.src + j * unit, v = 0;
                        for (unsigned b = 0; b < unit; ++b)
                            v |= (uint32_t)ext_model.get(a + b) << (8 * b);
                        want_log.push_back({'r', unit * 8, a, v});
                    }
                    rd_q = blen;
                }
                --rd_q;
                for (unsigned b = 0; b < unit; ++b)
                    value |= (uint32_t)ext_model.get(e.src + b) << (8 * b);
            } else if (x.dword) {
                value = mget(e.src & ~1u) | ((uint32_t)mget(e.src | 1) << 16);
            } else {
                value = mget(e.src);
            }
            if (x.dst_ext) {
                if (wr_q == 0)
                    wr_start = e.dst;
                wr_buf.push_back(value);
                if (++wr_q == blen) {
                    for (unsigned j = 0; j < blen; ++j) {
                        uint32_t a = wr_start + j * unit;
                        want_log.push_back({'w', unit * 8, a, unit == 2 ? (wr_buf[j] & 0xFFFF) : wr_buf[j]});
                        for (unsigned b = 0; b < unit; ++b)
                            ext_model.put(a + b, (uint8_t)(wr_buf[j] >> (8 * b)));
                    }
                    wr_buf.clear();
                    wr_q = 0;
                }
            } else if (x.dword) {
                mput(e.dst & ~1u, (uint16_t)value);
                mput(e.dst | 1, (uint16_t)(value >> 16));
            } else {
                mput(e.dst, (uint16_t)value);
            }
        }
        // ---- run ----
        g_accesses = 0;
        g_access_budget = 8 * (uint64_t)seq.size() * blen + 64; // <= 4 word accesses + 2 external accesses per element
        sysinst::Outcome o = s.guarded([&] {
            if (x.start_path)
                s.t->DataWrite(0x8000 + 0x1DE, 0x40C0);
            else
                s.t->MMIOWrite(0x1DE, 0x40C0);
        });
        g_access_budget = ~0ull;
        if (o.kind == 3 && o.what == "access budget exceeded")
            return vf::Result::fail(std::string("C13:nonterminating") + (x.dword ? ":dword" : ":word"),
                                    "the transfer did not complete within 8x the documented number of memory accesses (" + std::to_string(seq.size()) + " elements; " + trace + ")");
        if (o.kind != 0)
            return vf::Result::fail("C13:outcome", "starting the transfer ended with '" + o.what + "' (" + trace + ")");
        // ---- compare ----
        if ((s.t->MMIORead(0x200) & 0x8000) == 0)
            return vf::Result::fail("C13:irq:missing", "no DMA interrupt (ICU IRQ 15) after the transfer completed (" + trace + ")");
        std::vector<ExtEvent> got_log;
        for (size_t i = log0; i < s.log.size(); ++i)
            if (s.log[i].kind == 'r' || s.log[i].kind == 'w')
                got_log.push_back({s.log[i].kind, s.log[i].a, s.log[i].b, s.log[i].c});
        if (got_log.size() != want_log.size() || !std::equal(got_log.begin(), got_log.end(), want_log.begin())) {
            size_t k = 0;
            while (k < got_log.size() && k < want_log.size() && got_log[k] == want_log[k])
                ++k;
            auto sh = [](const ExtEvent& e) { return std::string(1, e.kind) + std::to_string(e.bits) + "@" + vf::hex(e.addr) + "=" + vf::hex(e.value); };
            return vf::Result::fail(std::string("C13:ext:") + (x.dst_ext ? "write" : "read") + (x.burst ? ":burst" : "") + (x.dword ? ":32" : ":16"),
                                    "external access " + std::to_string(k) + " is " + (k < got_log.size() ? sh(got_log[k]) : std::string("(missing)")) + " but must be " +
                                        (k < want_log.size() ? sh(want_log[k]) : std::string("(nothing)")) + "; " + std::to_string(got_log.size()) + " accesses vs " +
                                        std::to_string(want_log.size()) + " expected (" + trace + ")");
        }
        const uint8_t* mem = s.t->GetDspMemory();
        if (std::memcmp(mem, model.data(), model.size()) != 0) {
            size_t k = 0;
            while (mem[k] == model[k])
                ++k;
            uint32_t word = (uint32_t)(k / 2);
            bool in_dst = false;
            for (auto& e : seq)
                if (!x.dst_ext && (0x20000 + e.dst == word || (x.dword && (0x20000 + (e.dst & ~1u) == word || 0x20000 + (e.dst | 1) == word))))
                    in_dst = true;
            return vf::Result::fail(std::string("C13:memory:") + (in_dst ? "wrong-value" : "stray-write") + (x.dword ? ":dword" : ":word"),
                                    "DSP memory differs from the reference copy at data word " + vf::hex(word - 0x20000) + ": " + vf::hex(mem[k & ~1] | (mem[(k & ~1) + 1] << 8)) +
                                        " vs " + vf::hex(model[k & ~1] | (model[(k & ~1) + 1] << 8)) + (in_dst ? "" : " (outside the destination set)") + " (" + trace + ")");
        }
        // classes
        unsigned dims = (x.size[0] > (x.dword ? 2 : 1)) + (x.size[1] > 1) + (x.size[2] > 1);
        if (dims >= 2)
            nontrivial = true;
        if (xi > 0 && cs[xi - 1].channel == x.channel)
            vf::klass("second transfer on the same channel");
        if (x.size[0] == 0 || x.size[1] == 0 || x.size[2] == 0)
            vf::klass("zero size");
        if (x.dword)
            vf::klass("double-word mode");
        if (seq.size() > 4096)
            vf::klass(std::string("long row (") + (x.size[0] == 0xFFFF ? "SIZE0 = 0xFFFF" : x.size[0] >= 0x8000 ? "SIZE0 >= 0x8000" : "SIZE0 >= 0x1000") + (x.dword ? ", double word)" : ", word)"));
        vf::klass(std::string(x.src_ext ? "ext" : "dsp") + "->" + (x.dst_ext ? "ext" : "dsp") + (x.burst ? (x.burst == 1 ? " burst x4" : " burst x8") : ""));
        if (x.channel != 0)
            vf::klass("channel != 0");
        {
            bool applied_big = false;
            auto sq = seq;
            for (size_t i = 1; i < sq.size(); ++i)
                if (sq[i].src - sq[i - 1].src >= 0x8000 || sq[i].dst - sq[i - 1].dst >= 0x8000)
                    applied_big = true;
            if (applied_big)
                vf::klass("a step >= 0x8000 was applied");
        }
        if (!x.src_ext && !x.dst_ext) {
            uint32_t a0 = x.src, a1 = x.src + last_offset(x, true), b0 = x.dst, b1 = x.dst + last_offset(x, false);
            if (a0 <= b1 && b0 <= a1) {
                vf::klass("overlapping source and destination");
                nontrivial = true;
            }
        }
    }
    vf::note(vf::hash_str(encode(cs)), nontrivial);
    if (nontrivial && cs.size() == 1)
        vf::sample(trace);
    return vf::Result::pass();
}

// ---- c_binding_ahbm: external accesses through the C binding ---------------------------------------------------------------
// The same small history (AHBM channel configuration, host AHBM accessors, double-word / word DMA transfers between DSP memory
// and external memory) drives a C++ facade instance and a C-binding context whose six external-memory callbacks are C function
// pointers: the ordered external access logs (kind, width, address, value) and every returned value must be identical.
struct XOp {
    unsigned kind = 0; // 0 configure AHBM channel, 1..4 host accessors, 5 DMA dsp->ext, 6 DMA ext->dsp
    uint32_t a = 0;
    uint16_t v = 0;
};
using XCase = std::vector<XOp>;
std::string xencode(const XCase& c) {
    std::string s;
    for (auto& op : c)
        s += "x " + vf::hex(op.kind) + " " + vf::hex(op.a) + " " + vf::hex(op.v) + "\n";
    return s;
}
XCase xdecode(const std::string& text) {
    XCase c;
    for (auto& l : vf::lines(text)) {
        auto t = vf::split_ws(l);
        if (t.size() >= 4 && t[0] == "x")
            c.push_back({(unsigned)vf::unhex(t[1]) % 7, (uint32_t)vf::unhex(t[2]), (uint16_t)vf::unhex(t[3])});
    }
    return c;
}
struct CWorld {
    sysinst::ExtMem ext;
    std::vector<ExtEvent> log;
};
vf::Result xcheck(const XCase& cs) {
    static Teakra::Teakra* cpp = new Teakra::Teakra(Teakra::UserConfig{});
    static TeakraContext* cb = Teakra_Create();
    static CWorld wc, wb;
    static bool installed = false;
    if (!installed) {
        installed = true;
        Teakra::AHBMCallback k;
        k.read8 = [](uint32_t a) { uint8_t v = wc.ext.get(a); wc.log.push_back({'r', 8, a, v}); return v; };
        k.write8 = [](uint32_t a, uint8_t v) { wc.log.push_back({'w', 8, a, v}); wc.ext.put(a, v); };
        k.read16 = [](uint32_t a) { uint16_t v = (uint16_t)(wc.ext.get(a) | (wc.ext.get(a + 1) << 8)); wc.log.push_back({'r', 16, a, v}); return v; };
        k.write16 = [](uint32_t a, uint16_t v) { wc.log.push_back({'w', 16, a, v}); wc.ext.put(a, (uint8_t)v); wc.ext.put(a + 1, (uint8_t)(v >> 8)); };
        k.read32 = [](uint32_t a) { uint32_t v = 0; for (int i = 0; i < 4; ++i) v |= (uint32_t)wc.ext.get(a + i) << (8 * i); wc.log.push_back({'r', 32, a, v}); return v; };
        k.write32 = [](uint32_t a, uint32_t v) { wc.log.push_back({'w', 32, a, v}); for (int i = 0; i < 4; ++i) wc.ext.put(a + i, (uint8_t)(v >> (8 * i))); };
        cpp->SetAHBMCallback(k);
        Teakra_SetAHBMCallback(
            cb, [](void* u, uint32_t a) { auto& w = *(CWorld*)u; uint8_t v = w.ext.get(a); w.log.push_back({'r', 8, a, v}); return v; },
            [](void* u, uint32_t a, uint8_t v) { auto& w = *(CWorld*)u; w.log.push_back({'w', 8, a, v}); w.ext.put(a, v); },
            [](void* u, uint32_t a) { auto& w = *(CWorld*)u; uint16_t v = (uint16_t)(w.ext.get(a) | (w.ext.get(a + 1) << 8)); w.log.push_back({'r', 16, a, v}); return v; },
            [](void* u, uint32_t a, uint16_t v) { auto& w = *(CWorld*)u; w.log.push_back({'w', 16, a, v}); w.ext.put(a, (uint8_t)v); w.ext.put(a + 1, (uint8_t)(v >> 8)); },
            [](void* u, uint32_t a) { auto& w = *(CWorld*)u; uint32_t v = 0; for (int i = 0; i < 4; ++i) v |= (uint32_t)w.ext.get(a + i) << (8 * i); w.log.push_back({'r', 32, a, v}); return v; },
            [](void* u, uint32_t a, uint32_t v) { auto& w = *(CWorld*)u; w.log.push_back({'w', 32, a, v}); for (int i = 0; i < 4; ++i) w.ext.put(a + i, (uint8_t)(v >> (8 * i))); },
            &wb);
    }
    cpp->Reset();
    Teakra_Reset(cb);
    wc = CWorld();
    wb = CWorld();
    std::string trace;
    auto W = [&](uint16_t off, uint16_t v) {
        cpp->MMIOWrite(off, v);
        Teakra_MMIOWrite(cb, off, v);
    };
    bool any_ext = false;
    for (size_t i = 0; i < cs.size(); ++i) {
        const XOp& op = cs[i];
        uint32_t ra = 0, rb = 0;
        const uint32_t addr = 0x20000000u + ((op.a & 0xFFF) << 2);
        switch (op.kind) {
        case 0: { // AHBM channel k: unit size, burst, direction, connected DMA channel
            unsigned k = op.a % 3;
            W((uint16_t)(0x0E2 + 6 * k), (uint16_t)((((op.v >> 2) % 3) << 4) | (((op.v >> 4) % 3) << 1)));
            W((uint16_t)(0x0E4 + 6 * k), (uint16_t)((op.v & 1) << 8));
            W((uint16_t)(0x0E6 + 6 * k), (uint16_t)(1u << ((op.v >> 8) % 8)));
            trace += "cfg" + std::to_string(k) + " ";
            break;
        }
        case 1:
            ra = cpp->AHBMRead16(addr), rb = Teakra_AHBMRead16(cb, addr), trace += "hr16 ";
            break;
        case 2:
            cpp->AHBMWrite16(addr, op.v), Teakra_AHBMWrite16(cb, addr, op.v), trace += "hw16 ";
            break;
        case 3:
            ra = cpp->AHBMRead32(addr), rb = Teakra_AHBMRead32(cb, addr), trace += "hr32 ";
            break;
        case 4:
            cpp->AHBMWrite32(addr, 0x10001u * op.v + 0x00A50000u), Teakra_AHBMWrite32(cb, addr, 0x10001u * op.v + 0x00A50000u), trace += "hw32 ";
            break;
        default: { // a short transfer between DSP data memory and external memory on DMA channel ch, word or double word
            const bool to_ext = op.kind == 5, dw = (op.v >> 1) & 1;
            const unsigned ch = (op.v >> 8) % 8, n = 1 + (op.v >> 4) % 4;
            for (unsigned k = 0; k < 2 * n; ++k) {
                cpp->DataWriteA32(0x4000 + k, (uint16_t)(op.v * 3 + k));
                Teakra_DataWriteA32(cb, 0x4000 + k, (uint16_t)(op.v * 3 + k));
            }
            W(0x1BE, (uint16_t)ch);
            W(0x1C0, (uint16_t)(to_ext ? 0x4000 : (addr & 0xFFFF)));
            W(0x1C2, (uint16_t)(to_ext ? 0 : (addr >> 16)));
            W(0x1C4, (uint16_t)(to_ext ? (addr & 0xFFFF) : 0x4100));
            W(0x1C6, (uint16_t)(to_ext ? (addr >> 16) : 0));
            W(0x1C8, (uint16_t)(dw ? 2 * n : n));
            W(0x1CA, 1);
            W(0x1CC, 1);
            W(0x1CE, (uint16_t)(to_ext ? (dw ? 2 : 1) : (dw ? 4 : 2)));
            W(0x1D0, (uint16_t)(to_ext ? (dw ? 4 : 2) : (dw ? 2 : 1)));
            W(0x1DA, (uint16_t)((to_ext ? 0x70 : 0x07) | (dw ? 0x0400 : 0)));
            cpp->MMIOWrite(0x1DE, 0x40C0);
            Teakra_MMIOWrite(cb, 0x1DE, 0x40C0);
            trace += std::string(to_ext ? "dma>ext" : "dma<ext") + (dw ? "32 " : "16 ");
            break;
        }
        }
        auto fail = [&](const std::string& sig, const std::string& what) { return vf::Result::fail(sig, what + " at op " + std::to_string(i) + " (" + trace + ")"); };
        if (ra != rb)
            return fail("C13:cbinding:value:" + std::to_string(op.kind), "the C binding returned " + vf::hex(rb) + " where the C++ API returned " + vf::hex(ra));
        if (wc.log.size() != wb.log.size() || !std::equal(wc.log.begin(), wc.log.end(), wb.log.begin())) {
            size_t k = 0;
            while (k < wc.log.size() && k < wb.log.size() && wc.log[k] == wb.log[k])
                ++k;
            auto sh = [](const ExtEvent& e) { return std::string(1, e.kind) + std::to_string(e.bits) + "@" + vf::hex(e.addr) + "=" + vf::hex(e.value); };
            return fail("C13:cbinding:extlog", "external access " + std::to_string(k) + " through the C binding is " + (k < wb.log.size() ? sh(wb.log[k]) : std::string("(missing)")) +
                                                   ", through the C++ API " + (k < wc.log.size() ? sh(wc.log[k]) : std::string("(missing)")));
        }
        any_ext = any_ext || !wc.log.empty();
    }
    if (std::memcmp(cpp->GetDspMemory(), Teakra_GetDspMemory(cb), Teakra::DspMemorySize) != 0)
        return vf::Result::fail("C13:cbinding:memory", "DSP memory differs between the C-binding instance and the C++ one (" + trace + ")");
    vf::klass("c_binding_ahbm: same history through the C binding and the C++ API");
    vf::note(vf::hash_str(xencode(cs)) ^ 0xCB13, any_ext);
    return vf::Result::pass();
}
rc::Gen<XCase> genXCase() {
    using namespace rc;
    return gen::container<XCase>(gen::map(gen::tuple(vf::range<unsigned>(0, 7), gen::resize(100, gen::arbitrary<uint32_t>()), vf::u16b()),
                                          [](std::tuple<unsigned, uint32_t, uint16_t> t) { return XOp{std::get<0>(t), std::get<1>(t), std::get<2>(t)}; }));
}

} // namespace

int main(int argc, char** argv) {
    vf::init(argc, argv, "C13");
    vf::Property<Case> p;
    p.name = "dma_transfers";
    p.gen = [] {
        using namespace rc;
        // 1..3 transfers; the later ones often reuse the channel of the first
        return gen::map(gen::pair(gen::container<Case>(genXfer()), gen::resize(100, gen::arbitrary<uint32_t>())), [](std::pair<Case, uint32_t> t) {
            Case c = t.first;
            if (c.size() > 3)
                c.resize(3);
            for (size_t i = 1; i < c.size(); ++i)
                if ((t.second >> i) & 1)
                    c[i].channel = c[0].channel;
            return c;
        });
    };
    p.check = check;
    p.encode = encode;
    p.decode = decode;
    p.max_size = 6;
    p.share = 0.9;
    vf::run(p);
    vf::Property<XCase> x;
    x.name = "c_binding_ahbm";
    x.gen = [] { return genXCase(); };
    x.check = xcheck;
    x.encode = xencode;
    x.decode = xdecode;
    x.max_size = 30;
    x.share = 0.1;
    vf::run(x);
    return vf::finish();
}
