// C19 -- the host mailbox / semaphore API against a running DSP (two threads, built with ThreadSanitizer).
// A generated schedule = host operation list (SendData with increasing sequence numbers per channel, RecvData, ready polls,
// PeekRecvData, Set/Clear/Mask/GetSemaphore) with a generated pause after each (none / yield / spin), the slice sizes the
// DSP thread uses for Run(), and whether the host callbacks re-enter the API. The DSP runs an echo program: its APBP
// interrupt handler reads every CMDi, stores it, writes it back to REPLYi, echoes the semaphore, rewrites the
// interrupt-disable register and acknowledges. Oracle: ThreadSanitizer (any report fails the run), no invented or
// reordered values on either side, after the host thread is joined a bounded single-threaded drain must make the last value
// of every channel visible on both sides and must have entered the handler, and nothing deadlocks (watchdog = inconclusive).
// The handler reads a generated subset of the channels (the others stay full), and after the drain one more send per channel
// must each be followed by a handler entry (and a host callback where the DSP echoes): "every send with interrupts enabled is
// followed by at least one interrupt delivery", also into a mailbox that is still full.
#include <unistd.h>

#include <algorithm>
#include <atomic>
#include <chrono>
#include <map>
#include <mutex>
#include <thread>

#include "optable.h"
#include "register.h"
#include "teakra/teakra.h"
#include "vf.h"

namespace {

enum Kind : int { Send, Recv, Ready, Empty, Peek, SemSet, SemClear, SemMask, SemGet, Sync, NKIND };
const char* kKindName[] = {"send", "recv", "ready", "empty", "peek", "semset", "semclear", "semmask", "semget", "sync"};
struct Op {
    int kind = Send;
    unsigned ch = 0;
    unsigned v = 0;
    unsigned pause = 0; // 0 none, 1 yield, >=2 spin (pause) iterations
};
struct Case {
    std::vector<Op> ops;
    std::vector<unsigned> slices;
    unsigned reenter = 0; // bit0: data handlers call RecvData, bit1: semaphore handler calls GetSemaphore, bit2: data handler sends, bit3: semaphore handler acknowledges
    unsigned dismask = 0;  // channels whose interrupt the DSP handler disables (0x0D4) from its first entry on
    unsigned readmask = 7; // channels whose CMDi the DSP handler reads and echoes; the others stay full after their first send
    unsigned polls = 0;    // bit3: main leaves repc != 0; bit4: the handler does push st2 ... pop st2; bit2: the APBP interrupt switches the register context (ic0 = 1, handler ends in retic); bit0: the DSP handler reads CMDi only when the status register shows it ready; bit1: the host reads only
                           // after RecvDataIsReady (and its callbacks do not read)
};

uint16_t W(const std::string& form, const std::vector<long>& v) {
    int w = optable::find_word(form, v);
    if (w < 0)
        vf::add_note("inconclusive: instruction form not found: " + form);
    return (uint16_t)(w < 0 ? 0 : w);
}

std::string encode(const Case& c) {
    std::string s = "reenter " + vf::hex(c.reenter) + "\nreadmask " + vf::hex(c.readmask) + "\npolls " + vf::hex(c.polls) + "\ndismask " + vf::hex(c.dismask) + "\nslices";
    for (auto x : c.slices)
        s += " " + vf::hex(x);
    s += "\n";
    for (auto& op : c.ops)
        s += std::string(kKindName[op.kind]) + " " + vf::hex(op.ch) + " " + vf::hex(op.v) + " " + vf::hex(op.pause) + "\n";
    return s;
}
Case decode(const std::string& text) {
    Case c;
    for (auto& l : vf::lines(text)) {
        auto t = vf::split_ws(l);
        if (t.empty())
            continue;
        if (t[0] == "reenter" && t.size() >= 2)
            c.reenter = (unsigned)vf::unhex(t[1]);
        else if (t[0] == "readmask" && t.size() >= 2)
            c.readmask = (unsigned)vf::unhex(t[1]) & 7;
        else if (t[0] == "polls" && t.size() >= 2)
            c.polls = (unsigned)vf::unhex(t[1]) & 127;
        else if (t[0] == "dismask" && t.size() >= 2)
            c.dismask = (unsigned)vf::unhex(t[1]) & 7;
        else if (t[0] == "slices")
            for (size_t i = 1; i < t.size(); ++i)
                c.slices.push_back((unsigned)vf::unhex(t[i]));
        else if (t.size() >= 4) {
            Op op;
            for (int k = 0; k < NKIND; ++k)
                if (t[0] == kKindName[k])
                    op.kind = k;
            op.ch = (unsigned)vf::unhex(t[1]) % 3;
            op.v = (unsigned)vf::unhex(t[2]);
            op.pause = (unsigned)vf::unhex(t[3]);
            c.ops.push_back(op);
        }
    }
    return c;
}

const uint16_t kCounter = 0x2000, kLastCmd = 0x2100;

void load_program(Teakra::Teakra& t, unsigned readmask, bool dsp_polls, bool ctx_switch, bool stale_repc, bool save_st2, unsigned dismask,
                  uint32_t hbase) {
    std::vector<uint16_t> main;
    if (stale_repc) { // the main program leaves a non-zero repeat counter behind (no repeat is running)
        main.push_back(W("mov_repc(Imm16)", {-1}));
        main.push_back(5);
    }
    main.push_back(W("eint()", {}));
    main.push_back(W("brr(RelAddr7,CondValue)", {0x7F, 0}));
    for (size_t i = 0; i < main.size(); ++i)
        t.ProgramWrite(0x0100 + (uint32_t)i, main[i]);
    // int0 vector -> handler
    t.ProgramWrite(0x0006, W("br(Address18_16,Address18_2,CondValue)", {-1, 0, 0}));
    t.ProgramWrite(0x0007, 0x0400); // (unused when the request is routed to the vectored line: the handler then sits at hbase)
    std::vector<uint16_t> h;
    auto load = [&](uint16_t addr) { // mov [addr], a0
        h.push_back(W("mov(MemImm16,Ax)", {-1, 0}));
        h.push_back(addr);
    };
    auto store = [&](uint16_t addr) { // mov a0l, [addr]
        h.push_back(W("mov(Axl,MemImm16)", {0, -1}));
        h.push_back(addr);
    };
    auto imm = [&](uint16_t v) { // mov #v, a0l
        h.push_back(W("mov(Imm16,Register)", {-1, 26}));
        h.push_back(v);
    };
    if (save_st2) // the service routine saves and restores the status word st2 around its body, as compiler-generated prologues do
        h.push_back(W("push(Register)", {10}));
    for (uint16_t i = 0; i < 3; ++i) {
        if (!((readmask >> i) & 1))
            continue; // this channel is never read: its mailbox stays full, later sends must still interrupt
        size_t patch = 0;
        if (dsp_polls) { // a polling receiver: look at the data-ready bit of the status register first
            load(0x80D8);
            h.push_back(W("alu(AlmOp#8,Imm16,Ax)", {1, -1, 0})); // and #(1 << (13 + i)), a0
            h.push_back((uint16_t)(1u << (13 + i)));
            h.push_back(W("br(Address18_16,Address18_2,CondValue)", {-1, (long)(hbase >> 16), 1})); // br eq, skip
            patch = h.size();
            h.push_back(0);
        }
        load(0x80C2 + 4 * i); // CMDi (clears the ready flag)
        store(kLastCmd + i);
        store(0x80C0 + 4 * i); // REPLYi
        if (dsp_polls)
            h[patch] = (uint16_t)(hbase + h.size());
    }
    load(0x80D2); // semaphore from the host ...
    store(0x80CC); // ... echoed to the host
    store(0x80D0); // and acknowledged
    imm((uint16_t)(((dismask & 1) << 8) | (((dismask >> 1) & 1) << 12) | (((dismask >> 2) & 1) << 13)));
    store(0x80D4); // (re)write the interrupt-disable bits (a generated subset of the channels disabled) while the host may be sending
    imm(0x4000);
    store(0x8202); // acknowledge IRQ 14
    // count the entry
    h.push_back(W("load_page(Imm8)", {(long)(kCounter >> 8)}));
    h.push_back(W("alb(AlbOp,Imm16,MemImm8)", {3, -1, (long)(kCounter & 0xFF)}));
    h.push_back(1);
    if (save_st2)
        h.push_back(W("pop(Register)", {10}));
    h.push_back(ctx_switch ? W("retic(CondValue)", {0}) : W("reti(CondValue)", {0}));
    for (size_t i = 0; i < h.size(); ++i)
        t.ProgramWrite(hbase + (uint32_t)i, h[i]);
    // int1 vector -> a second, unrelated service routine (timer 0, when the schedule arms it): acknowledge IRQ 10 and return
    t.ProgramWrite(0x000E, W("br(Address18_16,Address18_2,CondValue)", {-1, 0, 0}));
    t.ProgramWrite(0x000F, 0x0300);
    const uint16_t th[] = {W("mov(Imm16,Register)", {-1, 26}), 0x0400, W("mov(Axl,MemImm16)", {0, -1}), 0x8202, W("reti(CondValue)", {0})};
    for (size_t i = 0; i < 5; ++i)
        t.ProgramWrite(0x0300 + (uint32_t)i, th[i]);
}

// Deadlock watchdog. A case normally takes a fraction of a second; one that has not finished after kWatchdogSeconds is stuck
// (the host thread's operations never block by contract, the DSP thread only waits for the host thread). The process saves the
// schedule and exits with code 78; the driver replays the schedule three times in fresh processes and reports a violation
// only if every replay hangs as well.
std::atomic<int64_t> g_case_started_ms{0}; // 0 = no case running
int64_t now_ms() {
    return std::chrono::duration_cast<std::chrono::milliseconds>(std::chrono::steady_clock::now().time_since_epoch()).count();
}
void start_watchdog() {
    static bool started = false;
    if (started)
        return;
    started = true;
    int limit = 60;
    if (const char* e = std::getenv("VERIF_C19_WATCHDOG"))
        limit = std::max(2, std::atoi(e));
    std::thread([limit] {
        for (;;) {
            std::this_thread::sleep_for(std::chrono::milliseconds(500));
            int64_t st = g_case_started_ms.load();
            if (st && now_ms() - st > (int64_t)limit * 1000) {
                std::fprintf(stderr, "VERIF-HANG: the schedule did not finish within %d s (deadlock between the API calls / callbacks?)\n", limit);
                vf::death_callback();
                _exit(78);
            }
        }
    }).detach();
}
struct CaseTimer {
    CaseTimer() { g_case_started_ms = now_ms(); }
    ~CaseTimer() { g_case_started_ms = 0; }
};

vf::Result check(const Case& c) {
    start_watchdog();
    CaseTimer case_timer;
    static Teakra::Teakra* instance = new Teakra::Teakra(Teakra::UserConfig{}); // construction is slow under TSan: one per process
    Teakra::Teakra& t = *instance;
    t.Reset();
    const bool vectored = (c.polls & 32) != 0; // the APBP request goes to the vectored line, its handler lives above 0x10000
    const uint32_t hbase = vectored ? 0x10400 : 0x0400;
    const unsigned dismask = c.dismask & 7;
    load_program(t, c.readmask, c.polls & 1, (c.polls & 4) != 0, (c.polls & 8) != 0, (c.polls & 16) != 0, dismask, hbase);
    const bool host_polls = (c.polls & 2) != 0;
    auto& regs = t.GetRegisterState();
    if (vectored) {
        t.MMIOWrite(0x20C, 0x4000); // IRQ 14 (APBP) -> vectored line
        t.MMIOWrite(0x212 + 4 * 14, (uint16_t)((hbase >> 16) | ((c.polls & 4) ? 0x8000 : 0)));
        t.MMIOWrite(0x214 + 4 * 14, (uint16_t)hbase);
        regs.imv = 1;
    } else {
        t.MMIOWrite(0x206, 0x4000); // IRQ 14 (APBP) -> int0
        regs.im[0] = 1;
        regs.ic[0] = (c.polls & 4) ? 1 : 0; // the service routine runs in the other register context and returns with retic
    }
    if (c.polls & 64) {
        // competing fixed-priority source: timer 0 in auto-restart mode with a short period on int1. Its requests coincide with
        // mailbox requests at instruction boundaries; each must still be delivered
        t.MMIOWrite(0x208, 0x0400); // IRQ 10 (timer 0) -> int1
        regs.im[1] = 1;
        t.MMIOWrite(0x24, (uint16_t)(7 + (c.dismask + c.readmask) % 9));
        t.MMIOWrite(0x26, 0);
        t.MMIOWrite(0x20, 0x0404); // auto-restart, restart now
    }
    regs.pc = 0x0100;
    regs.sp = 0x1800;
    // a channel counts for the value / delivery clauses when the handler reads it and its interrupt stays enabled
    auto counted = [&](unsigned i) { return ((c.readmask >> i) & 1) && !((dismask >> i) & 1); };
    regs.sat = regs.sata = 1;

    // what the host observes (host thread + callbacks on the DSP thread)
    std::array<std::vector<uint16_t>, 3> received, received_cb; // read by the host thread / by callbacks on the DSP thread
    std::array<std::vector<uint16_t>, 3> taken;                   // values returned by RecvData (either thread), i.e. really consumed
    std::mutex rec_mutex;
    std::atomic<unsigned> data_cb{0}, sem_cb{0};
    for (int i = 0; i < 3; ++i)
        t.SetRecvDataHandler(i, [&, i] {
            ++data_cb;
            if ((c.reenter & 1) && !host_polls) {
                uint16_t v = t.RecvData(i);
                std::lock_guard<std::mutex> l(rec_mutex);
                received_cb[i].push_back(v);
                taken[i].push_back(v);
            }
            if ((c.reenter & 4) && (data_cb % 64) == 7)
                t.SendData(i, 0); // a callback that sends (value 0 = "no sequence number")
        });
    t.SetSemaphoreHandler([&] {
        ++sem_cb;
        if (c.reenter & 2)
            (void)t.GetSemaphore();
        if (c.reenter & 8)
            t.ClearSemaphore(t.GetSemaphore()); // acknowledge inside the handler
    });

    std::atomic<bool> host_done{false};
    std::atomic<uint64_t> dsp_progress{0}, host_progress{0}, dsp_cycles{0};
    unsigned seq[3] = {0, 0, 0};
    unsigned last_sent[3] = {0, 0, 0};
    unsigned overlap = 0, syncs = 0;
    std::string logic_error, logic_sig;

    std::thread dsp([&] {
        size_t k = 0;
        while (!host_done.load()) {
            unsigned n = c.slices.empty() ? 64 : c.slices[k++ % c.slices.size()];
            t.Run(n ? n : 1);
            dsp_cycles += n ? n : 1;
            ++dsp_progress;
        }
    });
    {
        uint64_t seen = dsp_progress.load();
        for (const Op& op : c.ops) {
            switch (op.kind) {
            case Send:
                last_sent[op.ch] = ++seq[op.ch];
                t.SendData((uint8_t)op.ch, (uint16_t)last_sent[op.ch]);
                break;
            case Recv: {
                if (host_polls && !t.RecvDataIsReady((uint8_t)op.ch))
                    break; // a polling receiver reads only what is flagged ready
                uint16_t v = t.RecvData((uint8_t)op.ch);
                std::lock_guard<std::mutex> l(rec_mutex);
                received[op.ch].push_back(v);
                taken[op.ch].push_back(v);
                break;
            }
            case Ready:
                (void)t.RecvDataIsReady((uint8_t)op.ch);
                break;
            case Empty:
                (void)t.SendDataIsEmpty((uint8_t)op.ch);
                break;
            case Peek: {
                uint16_t v = t.PeekRecvData((uint8_t)op.ch);
                std::lock_guard<std::mutex> l(rec_mutex);
                received[op.ch].push_back(v);
                break;
            }
            case SemSet:
                t.SetSemaphore((uint16_t)op.v);
                break;
            case SemClear:
                t.ClearSemaphore((uint16_t)op.v);
                break;
            case SemMask:
                t.MaskSemaphore((uint16_t)op.v);
                break;
            case SemGet:
                (void)t.GetSemaphore();
                break;
            case Sync: {
                // quiescent point: the host stops sending until the DSP has run >= 4000 further cycles (an interrupt is taken within
                // a handler's length, ~60 instructions), then the last value of every echoed channel must have made the round trip
                // -- "the last value sent is always eventually observed", for the last value of *every* burst, through thread-safe
                // calls only
                uint64_t c0 = dsp_cycles.load();
                while (dsp_cycles.load() < c0 + 4000)
                    std::this_thread::yield();
                ++syncs;
                for (unsigned i = 0; i < 3 && logic_error.empty(); ++i) {
                    if (!seq[i] || !counted(i))
                        continue;
                    unsigned echoed = t.PeekRecvData((uint8_t)i);
                    bool callback_sent = (c.reenter & 4) != 0;
                    if (echoed != last_sent[i] && !(callback_sent && echoed == 0)) {
                        logic_sig = "C19:lost:last-value:sync";
                        logic_error = "channel " + std::to_string(i) + ": 4000 DSP cycles after the last send of a burst the reply is " + vf::hex(echoed) +
                                      " but the last value sent is " + vf::hex(last_sent[i]) + " (host op " + std::to_string(host_progress.load()) + ")";
                        break;
                    }
                    bool consumed;
                    {
                        std::lock_guard<std::mutex> l(rec_mutex);
                        consumed = std::find(taken[i].begin(), taken[i].end(), (uint16_t)echoed) != taken[i].end();
                    }
                    if (!consumed && !t.RecvDataIsReady((uint8_t)i)) {
                        logic_sig = "C19:lost:last-value:host-ready";
                        logic_error = "channel " + std::to_string(i) + ": the last reply " + vf::hex(echoed) +
                                      " was never returned by RecvData and is not flagged ready at a quiescent point (host op " +
                                      std::to_string(host_progress.load()) + ")";
                    }
                }
                break;
            }
            }
            ++host_progress;
            if (op.pause == 1)
                std::this_thread::yield();
            else
                for (volatile unsigned j = 0; j < op.pause; ++j) {
                }
            uint64_t now = dsp_progress.load();
            if (now != seen) {
                ++overlap;
                seen = now;
            }
        }
    }
    host_done = true;
    dsp.join();
    if (!logic_error.empty())
        return vf::Result::fail(logic_sig, logic_error + " (" + std::to_string(c.ops.size()) + " host ops)");
    // ---- bounded, single-threaded drain: "eventually" made finite --------------------------------------------------
    for (int k = 0; k < 64; ++k)
        t.Run(256);
    unsigned entries = t.DataRead(kCounter, true);
    unsigned sends = seq[0] + seq[1] + seq[2];
    std::string what = std::to_string(c.ops.size()) + " host ops, " + std::to_string(sends) + " sends, " + std::to_string(entries) + " handler entries, overlap " +
                       std::to_string(overlap);
    for (int i = 0; i < 3; ++i) {
        if (!seq[i] || !counted((unsigned)i))
            continue;
        unsigned on_dsp = t.DataRead((uint16_t)(kLastCmd + i), true);
        bool callback_sent = (c.reenter & 4) != 0; // a re-entrant send of 0 may legitimately be the last value
        if (on_dsp != last_sent[i] && !(callback_sent && on_dsp == 0))
            return vf::Result::fail("C19:lost:last-value:dsp", "channel " + std::to_string(i) + ": the DSP last saw " + vf::hex(on_dsp) + " but the last value sent is " +
                                                                   vf::hex(last_sent[i]) + " (" + what + ")");
        unsigned echoed = t.PeekRecvData((uint8_t)i);
        if (echoed != last_sent[i] && !(callback_sent && echoed == 0))
            return vf::Result::fail("C19:lost:last-value:host", "channel " + std::to_string(i) + ": the last reply is " + vf::hex(echoed) + " but the last value sent is " +
                                                                    vf::hex(last_sent[i]) + " (" + what + ")");
        // the last reply is eventually observed by a receiver that polls the ready flag: it was consumed by some RecvData, or it
        // is still flagged ready
        if (std::find(taken[i].begin(), taken[i].end(), (uint16_t)echoed) == taken[i].end() && !t.RecvDataIsReady((uint8_t)i))
            return vf::Result::fail("C19:lost:last-value:host-ready", "channel " + std::to_string(i) + ": the last reply " + vf::hex(echoed) +
                                                                          " was never returned by RecvData and is not flagged ready: a polling host never sees it (" + what + ")");
        // no invention, no reordering: every value the host read is 0 (nothing yet / callback send) or a sent sequence number,
        // and sequence numbers never go backwards
        for (const auto* list : {&received[i], &received_cb[i]}) { // order is meaningful per reading thread only
            unsigned prev = 0;
            for (uint16_t v : *list) {
                if (v > seq[i])
                    return vf::Result::fail("C19:invented", "channel " + std::to_string(i) + ": the host read " + vf::hex(v) + " which was never sent (" + what + ")");
                if (v != 0 && v < prev)
                    return vf::Result::fail("C19:reordered", "channel " + std::to_string(i) + ": the host read " + vf::hex(v) + " after " + vf::hex(prev) + " (" + what + ")");
                if (v)
                    prev = v;
            }
        }
    }
    unsigned enabled_sends = 0;
    for (unsigned i = 0; i < 3; ++i)
        if (!((dismask >> i) & 1))
            enabled_sends += seq[i];
    if (enabled_sends && entries == 0)
        return vf::Result::fail("C19:no-interrupt", "no handler entry although " + std::to_string(sends) + " sends were made with the interrupt enabled (" + what + ")");
    unsigned echoed_sends = 0;
    for (unsigned i = 0; i < 3; ++i)
        if (counted(i))
            echoed_sends += seq[i];
    if (data_cb.load() == 0 && echoed_sends)
        return vf::Result::fail("C19:no-host-callback", "the DSP replied but no host data handler ran (" + what + ")");
    // ---- "every send with interrupts enabled is followed by at least one interrupt delivery", made literal on the state the
    // concurrent history left behind (full / empty mailboxes on both sides): one more send per channel, each followed by a
    // bounded run; the DSP handler must be entered again, and where it echoes, a host data handler must run again
    for (unsigned i = 0; i < 3; ++i) {
        if ((dismask >> i) & 1)
            continue; // interrupt disabled for this channel: no delivery promised
        unsigned entries_before = t.DataRead(kCounter, true);
        unsigned cb_before = data_cb.load();
        bool was_full = !t.SendDataIsEmpty((uint8_t)i), reply_full = t.RecvDataIsReady((uint8_t)i);
        last_sent[i] = ++seq[i];
        t.SendData((uint8_t)i, (uint16_t)last_sent[i]);
        for (int k = 0; k < 4; ++k)
            t.Run(128);
        unsigned entries_after = t.DataRead(kCounter, true);
        std::string ctx = "channel " + std::to_string(i) + (was_full ? ", mailbox still full" : ", mailbox empty") + ", after " + std::to_string(c.ops.size()) +
                          " concurrent host ops";
        if (entries_after == entries_before)
            return vf::Result::fail(std::string("C19:send-without-interrupt:dsp:") + (was_full ? "full" : "empty"),
                                    "a SendData with the interrupt enabled was followed by no DSP handler entry within 512 cycles (" + ctx + ")");
        if (((c.readmask >> i) & 1) && data_cb.load() == cb_before)
            return vf::Result::fail(std::string("C19:send-without-interrupt:host:") + (reply_full ? "full" : "empty"),
                                    "the DSP wrote a reply with the interrupt enabled but no host data handler ran (" + ctx +
                                        (reply_full ? ", reply mailbox still full" : ", reply mailbox empty") + ")");
        if ((c.readmask >> i) & 1) {
            unsigned on_dsp = t.DataRead((uint16_t)(kLastCmd + i), true), echoed = t.PeekRecvData((uint8_t)i);
            bool callback_sent = (c.reenter & 4) != 0;
            if ((on_dsp != last_sent[i] || echoed != last_sent[i]) && !(callback_sent && (on_dsp == 0 || echoed == 0)))
                return vf::Result::fail("C19:lost:epilogue", "the value of the final send was not observed: DSP saw " + vf::hex(on_dsp) + ", reply is " + vf::hex(echoed) +
                                                                 ", sent " + vf::hex(last_sent[i]) + " (" + ctx + ")");
        }
        vf::klass(std::string("epilogue send into a ") + (was_full ? "still-full" : "empty") + " mailbox");
        if ((c.readmask >> i) & 1)
            vf::klass(std::string("epilogue reply into a ") + (reply_full ? "still-full" : "empty") + " reply mailbox");
    }
    {
        // semaphore epilogue: the value the DSP sets in its semaphore is what the host reads, whatever the host masked (the mask
        // gates the interrupt, not the value): with every bit masked the host sets two bits, the DSP's routine echoes them into its
        // own semaphore, and the host must observe them
        t.MaskSemaphore(0xFFFF);
        t.SetSemaphore(0x8001);
        for (int k = 0; k < 8; ++k)
            t.Run(128);
        uint16_t seen = t.GetSemaphore();
        if ((seen & 0x8001) != 0x8001)
            return vf::Result::fail("C19:lost:semaphore:masked", "the DSP echoed semaphore bits 8001 but the host, having masked them, reads " + vf::hex(seen) +
                                                                    " (the last value sent must be observed)");
        t.ClearSemaphore(0x8001);
        t.MaskSemaphore(0);
        vf::klass("semaphore epilogue with all bits masked on the host side");
    }
    vf::klass(overlap >= 10 ? "schedule with real overlap (>= 10 observed DSP progress changes)" : "schedule with little overlap");
    if (c.reenter)
        vf::klass("re-entrant host callbacks");
    if (syncs)
        vf::klass("quiescent points checked (bursts whose last value must arrive)", syncs);
    if (c.polls & 1)
        vf::klass("DSP handler polls the ready bits before reading");
    if (c.polls & 2)
        vf::klass("host reads only after RecvDataIsReady");
    if (c.polls & 4)
        vf::klass("service routine with context switch (ic0 = 1, retic)");
    if (c.polls & 8)
        vf::klass("main program leaves repc != 0");
    if (c.polls & 16)
        vf::klass("service routine saves and restores st2");
    if (c.polls & 64)
        vf::klass("a timer interrupt on int1 competes with the mailbox requests");
    if (c.polls & 32)
        vf::klass("request routed to the vectored line, handler above 0x10000");
    if (c.dismask)
        vf::klass("some channels' interrupts disabled by the DSP");
    vf::note(vf::hash_str(encode(c)), overlap >= 3 && sends >= 1);
    if (overlap >= 10 && vf::ctx().samples.size() < 5)
        vf::sample(what + "; slices " + std::to_string(c.slices.size()));
    return vf::Result::pass();
}

rc::Gen<Op> genOp() {
    using namespace rc;
    return gen::map(gen::tuple(gen::weightedElement<int>({{8, Send}, {3, Recv}, {1, Ready}, {1, Empty}, {2, Peek}, {2, SemSet}, {1, SemClear}, {1, SemMask}, {1, SemGet}, {2, Sync}}),
                               vf::range<unsigned>(0, 3), gen::element<unsigned>(1, 2, 0x8000, 0xFFFF, 0x00F0),
                               gen::weightedOneOf<unsigned>({{3, gen::just(0u)}, {2, gen::just(1u)}, {3, vf::range<unsigned>(2, 2000)}})),
                    [](std::tuple<int, unsigned, unsigned, unsigned> t) {
                        Op op;
                        op.kind = std::get<0>(t);
                        op.ch = std::get<1>(t);
                        op.v = std::get<2>(t);
                        op.pause = std::get<3>(t);
                        return op;
                    });
}

} // namespace

int main(int argc, char** argv) {
    vf::init(argc, argv, "C19");
    vf::Property<Case> p;
    p.name = "schedule";
    p.gen = [] {
        using namespace rc;
        return gen::map(gen::tuple(gen::container<std::vector<Op>>(genOp()), gen::container<std::vector<unsigned>>(gen::element<unsigned>(1, 1, 2, 3, 7, 16, 64, 200, 1000)),
                                   vf::range<unsigned>(0, 16), gen::weightedOneOf<unsigned>({{1, gen::just(7u)}, {1, vf::range<unsigned>(0, 8)}}),
                                   vf::range<unsigned>(0, 128), gen::weightedOneOf<unsigned>({{2, gen::just(0u)}, {1, vf::range<unsigned>(1, 7)}})),
                        [](std::tuple<std::vector<Op>, std::vector<unsigned>, unsigned, unsigned, unsigned, unsigned> t) {
                            Case c;
                            c.ops = std::get<0>(t);
                            // long schedules: repeat the generated list so that both threads really overlap
                            std::vector<Op> base = c.ops;
                            while (!base.empty() && c.ops.size() < 200)
                                c.ops.insert(c.ops.end(), base.begin(), base.end());
                            if (c.ops.size() > 400)
                                c.ops.resize(400);
                            c.slices = std::get<1>(t);
                            c.reenter = std::get<2>(t);
                            c.readmask = std::get<3>(t) & 7;
                            c.polls = std::get<4>(t) & 127;
                            c.dismask = std::get<5>(t) & 7;
                            return c;
                        });
    };
    p.check = check;
    p.encode = encode;
    p.decode = decode;
    p.max_size = 60;
    // The outcome of a schedule depends on how the OS interleaves the two threads, the oracle does not: a lost or invented value
    // is wrong whenever it shows. A failure therefore counts once the same schedule fails again within 40 further runs (and the failing schedule is kept as generated, not shrunk).
    p.confirm_runs = 40;
    p.confirm_min = 1;
    p.no_shrink = true;
    vf::run(p);
    return vf::finish();
}
