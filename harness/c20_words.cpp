// C20 -- status/config words are faithful bit-field views of one register state.
//  D1  every word x all 65536 values x generated states through RegisterState::Set<>/Get<>: the resulting state and
//      read-back equal the golden layout model (write/read-back, read-only bits, write-one-to-clear loop bit, frame
//      law: nothing outside the word moves), Set(Get()) is the identity without an active loop, and every field that
//      is visible in two words reads the same through both (TeakLite limit flag = flm | fvl)
//  D1i the same through instructions: mov #imm16 -> word, push word
//  D2  three-way agreement on ar/arp addressing configuration: interpreter (observed register/step/offset) vs the
//      annotated disassembler; test generator (pinned register is the one the disassembler names) over a full pass
//  D3  after any instruction (all defined first words), every word read through the real accessor equals the layout applied to the
//      resulting register state
//  D2m the step a word selects is the step of that name: under generated modulo / bit-reversal / step configurations the
//      named register ends where the plain "modr rN,<same step>[,dmod]" leaves it from the same state
#include <regex>

#include "arrefs.h"
#include "genstream.h"
#include "icase.h"
#include "optable.h"
#include "pseudo_layout.h"
#include "teakra/disassembler.h"
#include "test.h"
#include "vf.h"

namespace {

icase::Machine& sut() {
    static icase::Machine* m = new icase::Machine(ICASE_FNS(sut_));
    return *m;
}

const int NW = 19;

// fields shown by two words, written down from the property statement / register documentation, independent of the
// golden table: {word A, bit A, word B, bit B}
struct Dual {
    const char *wa, *wb;
    int ba, bb;
};
const Dual kDual[] = {
    {"st0", "mod0", 0, 0},   {"st0", "mod3", 1, 7},   {"st0", "mod3", 2, 8},   {"st0", "mod3", 3, 9},   {"st0", "stt1", 4, 4},
    {"st0", "stt0", 6, 2},   {"st0", "stt0", 7, 3},   {"st0", "stt0", 8, 4},   {"st0", "stt0", 9, 5},   {"st0", "stt0", 10, 6},
    {"st0", "stt0", 11, 7},  {"st1", "mod1", 0, 0},   {"st1", "mod1", 1, 1},   {"st1", "mod1", 2, 2},   {"st1", "mod1", 3, 3},
    {"st1", "mod1", 4, 4},   {"st1", "mod1", 5, 5},   {"st1", "mod1", 6, 6},   {"st1", "mod1", 7, 7},   {"st1", "mod0", 10, 10},
    {"st1", "mod0", 11, 11}, {"st2", "mod2", 0, 0},   {"st2", "mod2", 1, 1},   {"st2", "mod2", 2, 2},   {"st2", "mod2", 3, 3},
    {"st2", "mod2", 4, 4},   {"st2", "mod2", 5, 5},   {"st2", "mod3", 6, 10},  {"st2", "mod0", 7, 7},   {"st2", "mod0", 8, 8},
    {"st2", "mod0", 9, 9},   {"st2", "stt1", 10, 10}, {"st2", "stt1", 11, 11}, {"st2", "stt2", 13, 2},  {"st2", "stt2", 14, 0},
    {"st2", "stt2", 15, 1},  {"icr", "mod3", 0, 0},   {"icr", "mod3", 1, 1},   {"icr", "mod3", 2, 2},   {"icr", "mod3", 3, 3},
    {"icr", "stt2", 4, 15},  {"icr", "stt2", 5, 12},  {"icr", "stt2", 6, 13},  {"icr", "stt2", 7, 14},
};
int word_index(const std::string& n) {
    for (int i = 0; i < NW; ++i)
        if (n == layout::words()[i].name)
            return i;
    return -1;
}

flat::State gen_plain_state(uint64_t seed) {
    vf::Stream s(seed);
    flat::State st = icase::gen_state(s, 8);
    st[flat::F_pc] = 0x100 + s.below(0x1000);
    st[flat::F_rep] = 0;
    // an active loop frame must not end right at the instruction under test (the fetch loop would then jump back to the block start:
    // loop control, not the subject here); the frames keep arbitrary 18-bit contents otherwise
    for (int i = 0; i < 4; ++i)
        if (st[flat::F_bk_end + i] < 0x1200)
            st[flat::F_bk_end + i] += 0x2000;
    return st;
}

std::string body_of(const char* sub, uint64_t a, uint64_t b, uint64_t c) {
    return std::string(sub) + " " + vf::hex(a) + " " + vf::hex(b) + " " + vf::hex(c) + "\n";
}

// ---- D1 --------------------------------------------------------------------------------------------------------
vf::Result sub_D1(int w, uint16_t v, uint64_t seed) {
    const char* wn = layout::words()[w].name;
    flat::State st = gen_plain_state(seed);
    icase::Machine& m = sut();
    m.f.set_state(m.core, &st);
    m.f.pseudo_set(m.core, w, v);
    flat::State got;
    m.f.get_state(m.core, &got);
    flat::State want = layout::write(w, st, v);
    if (!(got == want)) {
        std::string d = flat::diff(got, want);
        return vf::Result::fail(std::string("C20:D1:state:") + wn + ":" + d.substr(0, d.find(':')),
                                std::string("writing ") + vf::hex(v) + " to " + wn + ": state differs from the layout (got vs expected) " + d);
    }
    uint16_t rb = m.f.pseudo_get(m.core, w), rb_want = layout::read(w, want);
    if (rb != rb_want)
        return vf::Result::fail(std::string("C20:D1:readback:") + wn, std::string("reading ") + wn + " after writing " + vf::hex(v) + " gives " + vf::hex(rb) +
                                                                          " instead of " + vf::hex(rb_want));
    // dual views (independent of the golden table)
    uint16_t all[NW];
    for (int i = 0; i < NW; ++i)
        all[i] = m.f.pseudo_get(m.core, i);
    for (const Dual& d : kDual) {
        int a = word_index(d.wa), b = word_index(d.wb);
        if (((all[a] >> d.ba) & 1) != ((all[b] >> d.bb) & 1))
            return vf::Result::fail(std::string("C20:D1:dual:") + d.wa + "." + std::to_string(d.ba) + "/" + d.wb + "." + std::to_string(d.bb),
                                    std::string("after writing ") + vf::hex(v) + " to " + wn + ": " + d.wa + " bit " + std::to_string(d.ba) + " and " + d.wb +
                                        " bit " + std::to_string(d.bb) + " disagree");
    }
    int st0 = word_index("st0"), stt0 = word_index("stt0");
    if (((all[st0] >> 5) & 1) != (((all[stt0] >> 0) | (all[stt0] >> 1)) & 1))
        return vf::Result::fail("C20:D1:dual:limit", std::string("after writing ") + vf::hex(v) + " to " + wn + ": st0 bit 5 is not flm | fvl");
    // Set(Get()) == identity when no loop is active
    if (got[flat::F_lp] == 0) {
        m.f.pseudo_set(m.core, w, rb);
        flat::State again;
        m.f.get_state(m.core, &again);
        if (!(again == got))
            return vf::Result::fail(std::string("C20:D1:setget:") + wn, std::string("writing back the value just read from ") + wn + " changed the state: " +
                                                                            flat::diff(again, got));
    }
    return vf::Result::pass();
}

// ---- D1i: through instructions -----------------------------------------------------------------------------------
struct WordOps {
    uint16_t mov_imm = 0;  // mov #imm16, W   (0 = none)
    uint16_t push = 0;     // push W
    uint16_t pop = 0;      // pop W
    uint16_t mov_abl = 0;  // mov b0l, W  (Abl operand value 0 = b0l)
    uint16_t rmw[3] = {0, 0, 0}; // set / rst / chng #imm16, W (read-modify-write through the bit-manipulation unit)
    bool have_mov = false, have_push = false, have_pop = false, have_abl = false, have_rmw[3] = {false, false, false};
};
WordOps find_ops(int w) {
    const std::string wn = layout::words()[w].name;
    WordOps o;
    for (uint32_t op = 0; op < 0x10000; ++op) {
        const optable::Info& i = optable::info((uint16_t)op);
        if (i.entry < 0)
            continue;
        bool mov = i.form == "mov(Imm16,SttMod)" || i.form == "mov(Imm16,ArArp)" || i.form == "mov(Imm16,Register)";
        bool push = i.form == "push(ArArpSttMod)" || i.form == "push(Register)";
        bool pop = i.form == "pop(ArArpSttMod)" || i.form == "pop(Register)";
        bool abl = (i.form == "mov(Abl,ArArp)" || i.form == "mov(Abl,SttMod)") && i.operands[0].value == 0;
        bool rmw = (i.form == "alb(AlbOp,Imm16,SttMod)" || i.form == "alb(AlbOp,Imm16,Register)") && i.operands[0].value <= 2;
        if (!mov && !push && !pop && !abl && !rmw)
            continue;
        auto t = Teakra::Disassembler::GetTokenList((uint16_t)op, 0);
        if (t.empty() || t.back() != wn)
            continue;
        if (mov && !o.have_mov) {
            o.mov_imm = (uint16_t)op;
            o.have_mov = true;
        }
        if (push && !o.have_push) {
            o.push = (uint16_t)op;
            o.have_push = true;
        }
        if (pop && !o.have_pop) {
            o.pop = (uint16_t)op;
            o.have_pop = true;
        }
        if (abl && !o.have_abl) {
            o.mov_abl = (uint16_t)op;
            o.have_abl = true;
        }
        if (rmw && !o.have_rmw[i.operands[0].value]) {
            o.rmw[i.operands[0].value] = (uint16_t)op;
            o.have_rmw[i.operands[0].value] = true;
        }
    }
    return o;
}
const WordOps& ops_of(int w) {
    static std::vector<WordOps> v = [] {
        std::vector<WordOps> r;
        for (int i = 0; i < NW; ++i)
            r.push_back(find_ops(i));
        return r;
    }();
    return v[w];
}

vf::Result sub_D1i(int w, uint16_t v, uint64_t seed) {
    const char* wn = layout::words()[w].name;
    const WordOps& o = ops_of(w);
    flat::State st = gen_plain_state(seed);
    for (int i = 0; i < 3; ++i)
        st[flat::F_ip + i] = 0; // nothing pending, so writing an enable bit cannot be followed by an interrupt entry
    st[flat::F_ipv] = 0;
    st[flat::F_sp] = 0x4000 + (seed & 0xFF);
    if (o.have_mov) {
        icase::ICase c;
        c.st = st;
        c.opcode = o.mov_imm;
        c.expansion = v;
        icase::IResult r = sut().exec(c);
        if (r.outcome == 0) {
            flat::State want = layout::write(w, st, v);
            want[flat::F_pc] = st[flat::F_pc] + 2;
            if (!(r.after == want)) {
                std::string d = flat::diff(r.after, want);
                return vf::Result::fail(std::string("C20:D1i:mov:") + wn + ":" + d.substr(0, d.find(':')),
                                        std::string("mov #") + vf::hex(v) + ", " + wn + ": state differs from the layout (got vs expected) " + d);
            }
        }
    }
    if (o.have_push) {
        // make the word hold v first (through the layout), then push it
        flat::State s2 = layout::write(w, st, v);
        icase::ICase c;
        c.st = s2;
        c.opcode = o.push;
        icase::IResult r = sut().exec(c);
        if (r.outcome == 0) {
            uint16_t want = layout::read(w, s2);
            uint32_t addr = 0x20000u + (uint16_t)(s2[flat::F_sp] - 1);
            auto it = r.writes.find(addr);
            if (it == r.writes.end() || it->second != want)
                return vf::Result::fail(std::string("C20:D1i:push:") + wn, std::string("push ") + wn + " stored " +
                                                                               (it == r.writes.end() ? std::string("nothing") : vf::hex(it->second)) +
                                                                               " instead of " + vf::hex(want));
        }
    }
    if (o.have_pop) { // pop W: the word takes the cell at sp, sp moves up by one, nothing else changes
        icase::ICase c;
        c.st = st;
        c.opcode = o.pop;
        c.pokes.push_back({0x20000u + (uint16_t)st[flat::F_sp], v});
        icase::IResult r = sut().exec(c);
        if (r.outcome == 0) {
            flat::State before = st;
            before[flat::F_sp] = (uint16_t)(st[flat::F_sp] + 1); // the word may be written after the pointer moved (no word contains sp)
            flat::State want = layout::write(w, before, v);
            want[flat::F_pc] = st[flat::F_pc] + 1;
            if (!(r.after == want)) {
                std::string d = flat::diff(r.after, want);
                return vf::Result::fail(std::string("C20:D1i:pop:") + wn + ":" + d.substr(0, d.find(':')),
                                        std::string("pop ") + wn + " with " + vf::hex(v) + " on the stack: state differs from the layout (got vs expected) " + d);
            }
        }
    }
    if (o.have_abl) { // mov b0l, W: the word takes the low half of b0
        icase::ICase c;
        c.st = st;
        // b0 within 32 bits (a read of an accumulator part saturates a wider value first when saturation is on; not the subject here)
        c.st[flat::F_b + 0] = (uint64_t)(int64_t)(int32_t)(uint32_t)(((uint64_t)c.st[flat::F_b + 0] & 0xFFFF0000ull) | v); // sign-extended, as the state holds accumulators
        c.opcode = o.mov_abl;
        icase::IResult r = sut().exec(c);
        if (r.outcome == 0) {
            flat::State want = layout::write(w, c.st, v);
            want[flat::F_pc] = st[flat::F_pc] + 1;
            if (!(r.after == want)) {
                std::string d = flat::diff(r.after, want);
                return vf::Result::fail(std::string("C20:D1i:movabl:") + wn + ":" + d.substr(0, d.find(':')),
                                        std::string("mov b0l (= ") + vf::hex(v) + "), " + wn + ": state differs from the layout (got vs expected) " + d);
            }
        }
    }
    for (int k = 0; k < 3; ++k) {
        // set / rst / chng #v, W: the word is read, combined with the immediate and written back; what reads back afterwards is
        // the written value (also when that equals the old one, and also for the word that holds the flags the operation sets)
        if (!o.have_rmw[k])
            continue;
        icase::ICase c;
        c.st = st;
        c.opcode = o.rmw[k];
        c.expansion = v;
        icase::IResult r = sut().exec(c);
        if (r.outcome != 0)
            continue;
        uint16_t old = layout::read(w, st);
        uint16_t res = k == 0 ? (uint16_t)(old | v) : (k == 1 ? (uint16_t)(old & ~v) : (uint16_t)(old ^ v));
        flat::State before = st;
        // the operation's own zero / minus flags are instruction semantics (C01); they are part of this comparison only through
        // the word under test: a word that shows them must read back the written value
        before[flat::F_fz] = r.after[flat::F_fz];
        before[flat::F_fm] = r.after[flat::F_fm];
        flat::State want = layout::write(w, before, res);
        want[flat::F_pc] = st[flat::F_pc] + 2;
        if (!(r.after == want)) {
            std::string d = flat::diff(r.after, want);
            static const char* nm[] = {"set", "rst", "chng"};
            return vf::Result::fail(std::string("C20:D1i:rmw:") + nm[k] + ":" + wn + ":" + d.substr(0, d.find(':')),
                                    std::string(nm[k]) + " #" + vf::hex(v) + ", " + wn + " (word was " + vf::hex(old) + ", written " + vf::hex(res) +
                                        "): state differs from the layout (got vs expected) " + d);
        }
        if (res == old)
            vf::klass("D1i: read-modify-write that leaves the word unchanged");
    }
    if (std::string(wn) == "icr") { // mov #imm5, icr replaces the low five bits only (bit 4 is the write-one-to-clear view of lp)
        static const int base = optable::find_word("mov_icr(Imm5)", {0});
        if (base >= 0) {
            uint16_t imm = v & 0x1F;
            icase::ICase c;
            c.st = st;
            c.opcode = (uint16_t)(base | imm);
            icase::IResult r = sut().exec(c);
            if (r.outcome == 0 && optable::info(c.opcode).form == "mov_icr(Imm5)") {
                flat::State want = layout::write(w, st, (uint16_t)((layout::read(w, st) & ~0x1Fu & ~0x10u) | imm));
                want[flat::F_pc] = st[flat::F_pc] + 1;
                if (!(r.after == want)) {
                    std::string d = flat::diff(r.after, want);
                    return vf::Result::fail(std::string("C20:D1i:movimm5:icr:") + d.substr(0, d.find(':')),
                                            std::string("mov #") + vf::hex(imm) + ", icr: state differs from the layout (got vs expected) " + d +
                                                " (lp=" + vf::hex(st[flat::F_lp]) + " bcn=" + vf::hex(st[flat::F_bcn]) + ")");
                }
                if (st[flat::F_lp])
                    vf::klass("D1i: mov #imm5, icr inside an active loop");
            }
        }
    }
    return vf::Result::pass();
}

// ---- D2: ar/arp three-way agreement --------------------------------------------------------------------------------
using arrefs::Ref;
using arrefs::parse_refs;
using arrefs::is_ar_form;

const int kMarker[8] = {0x1000, 0x1400, 0x1800, 0x1C00, 0x2000, 0x2400, 0x2800, 0x2C00};

vf::Result sub_D2(uint16_t op, uint16_t x, uint64_t seed) {
    const optable::Info& info = optable::info(op);
    vf::Stream s(seed);
    Teakra::Disassembler::ArArpSettings aa;
    for (auto& v : aa.ar)
        v = (uint16_t)s.bits(16);
    for (auto& v : aa.arp)
        v = (uint16_t)s.bits(16);
    flat::State st = flat::reset_state();
    // the configuration words go in through the golden layout (D1 ties it to Set<>), everything else is plain
    for (int k = 0; k < 2; ++k)
        st = layout::write(word_index("ar0") + k, st, aa.ar[k]);
    for (int k = 0; k < 4; ++k)
        st = layout::write(word_index("arp0") + k, st, aa.arp[k]);
    for (int i = 0; i < 8; ++i)
        st[flat::F_r + i] = kMarker[i];
    st[flat::F_stepi] = 5;
    st[flat::F_stepj] = 0x7D; // -3
    st[flat::F_sp] = 0x4000;
    st[flat::F_pc] = 0x100;
    st[flat::F_sata] = 1;
    st[flat::F_sat] = 1;
    for (int i = 0; i < 2; ++i) {
        st[flat::F_a + i] = flat::sext40(s.bits(40));
        st[flat::F_b + i] = flat::sext40(s.bits(40));
    }
    icase::ICase c;
    c.st = st;
    c.opcode = op;
    c.expansion = x;
    icase::IResult r = sut().exec(c);
    if (r.outcome != 0)
        return vf::Result::pass();
    auto tokens = Teakra::Disassembler::GetTokenList(op, x, aa);
    std::vector<Ref> refs = parse_refs(tokens);
    std::string where = info.form + " " + vf::hex(op) + " ar=" + vf::hex(aa.ar[0]) + "," + vf::hex(aa.ar[1]) + " arp=" + vf::hex(aa.arp[0]) + "," +
                        vf::hex(aa.arp[1]) + "," + vf::hex(aa.arp[2]) + "," + vf::hex(aa.arp[3]) + " text '" + Teakra::Disassembler::Do(op, x, aa) + "'";
    if (refs.empty())
        return vf::Result::pass();
    int count[8] = {0};
    for (auto& rf : refs)
        ++count[rf.reg];
    for (int n = 0; n < 8; ++n)
        if (count[n] > 1)
            return vf::Result::pass(); // same register named twice: deltas add up ambiguously, skip
    bool pointer_form = info.name.rfind("bkrep", 0) == 0; // [%rN] is a frame pointer that moves by the frame size
    const int stepval[8] = {0, 1, -1, 0, 2, -2, 2, -2};
    for (int n = 0; n < 8; ++n) {
        int want = 0;
        bool named = false;
        for (auto& rf : refs)
            if (rf.reg == n) {
                named = true;
                if (rf.has_step)
                    want = rf.step == 3 ? (n < 4 ? 5 : -3) : stepval[rf.step];
            }
        int got = (int)(int16_t)((uint16_t)r.after[flat::F_r + n] - (uint16_t)kMarker[n]);
        if (pointer_form && named)
            continue;
        if (got != want)
            return vf::Result::fail("C20:D2:step:" + info.name, "r" + std::to_string(n) + " moved by " + std::to_string(got) + " but the annotated text says " +
                                                                    std::to_string(want) + (named ? "" : " (register not named)") + " for " + where);
    }
    // data accesses: only cells the text names (pre-modified register, plus the named offset)
    bool fetch_done = false;
    size_t idx = 0;
    for (auto& a : r.log) {
        ++idx;
        if (!fetch_done) {
            if (idx >= (size_t)(1 + (info.expanded ? 1 : 0)))
                fetch_done = true;
            continue;
        }
        if (a.addr < 0x20000)
            continue;
        int da = (int)(a.addr - 0x20000);
        bool ok = false;
        for (auto& rf : refs) {
            int base = kMarker[rf.reg];
            if (da == base || (rf.has_step && rf.off != 0 && da == base + rf.off))
                ok = true;
            if (pointer_form && da >= base - 4 && da <= base + 4)
                ok = true;
        }
        if (!ok)
            return vf::Result::fail("C20:D2:address:" + info.name, std::string(a.write ? "write to" : "read of") + " data address " + vf::hex(da) +
                                                                       " which the annotated text does not name, for " + where);
    }
    if (info.name.rfind("modr", 0) != 0 && !pointer_form) {
        for (auto& rf : refs) {
            bool seen = false;
            for (auto& a : r.log)
                if (a.addr == 0x20000u + kMarker[rf.reg])
                    seen = true;
            if (!seen)
                return vf::Result::fail("C20:D2:unused-register:" + info.name, "the text names r" + std::to_string(rf.reg) +
                                                                                   " but the interpreter never accessed the cell it points to, for " + where);
        }
    }
    return vf::Result::pass();
}

// D2m: the step an ar/arp word selects is the step of the same name everywhere. Under a generated addressing
// configuration (both compatibility modes, modulo / bit reversal / end pointers, 7- and 16-bit steps, registers inside
// their buffers) every register the annotated text names with a step ++0, ++1, --1, ++s, ++2 or --2 (and the "dmod" flags the
// text prints) must end where the plain instruction the disassembler prints with that very step -- modr rN,<step>[,dmod] --
// leaves it from the same state. (The starred steps have no plain counterpart; they are counted, not compared.)
vf::Result sub_D2m(uint16_t op, uint16_t x, uint64_t seed) {
    const optable::Info& info = optable::info(op);
    vf::Stream s(seed);
    Teakra::Disassembler::ArArpSettings aa;
    for (auto& v : aa.ar)
        v = (uint16_t)s.bits(16);
    for (auto& v : aa.arp)
        v = (uint16_t)s.bits(16);
    flat::State st = flat::reset_state();
    for (int k = 0; k < 2; ++k)
        st = layout::write(word_index("ar0") + k, st, aa.ar[k]);
    for (int k = 0; k < 4; ++k)
        st = layout::write(word_index("arp0") + k, st, aa.arp[k]);
    st[flat::F_cmd] = s.bits(1);
    st[flat::F_stp16] = s.bits(1);
    st[flat::F_stepi] = s.bits(7);
    st[flat::F_stepj] = s.bits(7);
    st[flat::F_stepi0] = s.chance(1, 2) ? s.below(9) : s.bits(16);
    st[flat::F_stepj0] = s.chance(1, 2) ? (uint16_t)(0 - s.below(9)) : s.bits(16);
    st[flat::F_epi] = s.chance(1, 8);
    st[flat::F_epj] = s.chance(1, 8);
    unsigned mod[2];
    for (int j = 0; j < 2; ++j) {
        mod[j] = (unsigned)(s.chance(2, 3) ? 1 + s.below(15) : s.below(512));
        st[j ? flat::F_modj : flat::F_modi] = mod[j];
    }
    for (int i = 0; i < 8; ++i) {
        st[flat::F_m + i] = s.chance(2, 3);
        st[flat::F_br + i] = s.chance(1, 6);
        unsigned md = mod[i >= 4];
        unsigned off = (unsigned)(s.chance(1, 3) ? 0 : (s.chance(1, 2) ? md : s.below(md + 1))); // edges likely
        st[flat::F_r + i] = (uint16_t)(kMarker[i] + off);
    }
    st[flat::F_sp] = 0x4000;
    st[flat::F_pc] = 0x100;
    for (int i = 0; i < 2; ++i) {
        st[flat::F_a + i] = flat::sext40(s.bits(40));
        st[flat::F_b + i] = flat::sext40(s.bits(40));
    }
    icase::ICase c;
    c.st = st;
    c.opcode = op;
    c.expansion = x;
    icase::IResult r = sut().exec(c);
    if (r.outcome != 0)
        return vf::Result::pass();
    auto tokens = Teakra::Disassembler::GetTokenList(op, x, aa);
    std::vector<Ref> refs = parse_refs(tokens);
    if (refs.empty() || info.name.rfind("bkrep", 0) == 0)
        return vf::Result::pass();
    int count[8] = {0};
    for (auto& rf : refs)
        ++count[rf.reg];
    static const char* step_text[] = {"++0", "++1", "--1", "++s", "++2", "--2", "++2*", "--2*"};
    for (auto& rf : refs) {
        if (count[rf.reg] > 1 || !rf.has_step)
            continue;
        if (rf.step >= 6) {
            vf::klass("D2m: starred step (no plain counterpart, not compared)");
            continue;
        }
        bool dmod = arrefs::dmod_for(tokens, rf.reg);
        int twin_word;
        if (rf.step <= 3)
            twin_word = optable::find_word(dmod ? "modr_dmod(Rn,StepValue#4)" : "modr(Rn,StepValue#4)", {rf.reg, rf.step});
        else if (rf.step == 4)
            twin_word = optable::find_word(dmod ? "modr_i2_dmod(Rn)" : "modr_i2(Rn)", {rf.reg});
        else
            twin_word = optable::find_word(dmod ? "modr_d2_dmod(Rn)" : "modr_d2(Rn)", {rf.reg});
        if (twin_word < 0) {
            vf::add_note("inconclusive: no plain modr form found for step " + std::to_string(rf.step));
            continue;
        }
        icase::ICase t;
        t.st = st;
        t.opcode = (uint16_t)twin_word;
        icase::IResult rt = sut().exec(t);
        if (rt.outcome != 0)
            continue;
        uint16_t got = (uint16_t)r.after[flat::F_r + rf.reg], want = (uint16_t)rt.after[flat::F_r + rf.reg];
        bool modulo = st[flat::F_m + rf.reg] && !st[flat::F_br + rf.reg] && !dmod;
        if (modulo && !st[flat::F_cmd] && rf.step >= 4)
            vf::klass("D2m: +-2 under modulo in Teak mode (where the starred and plain steps differ)");
        else if (modulo)
            vf::klass("D2m: step under modulo");
        else
            vf::klass("D2m: linear / bit-reversed / dmod step");
        if (got != want)
            return vf::Result::fail(std::string("C20:D2m:step:") + info.name + ":" + step_text[rf.step],
                                    "r" + std::to_string(rf.reg) + " = " + vf::hex(st[flat::F_r + rf.reg]) + " ends at " + vf::hex(got) + " but '" +
                                        Teakra::Disassembler::Do((uint16_t)twin_word, 0, aa) + "' -- the step the annotated text names -- leaves it at " +
                                        vf::hex(want) + " (cmd=" + vf::hex(st[flat::F_cmd]) + " m=" + vf::hex(st[flat::F_m + rf.reg]) + " br=" +
                                        vf::hex(st[flat::F_br + rf.reg]) + " mod=" + vf::hex(mod[rf.reg >= 4]) + (dmod ? " dmod" : "") + ") for " + info.form + " " +
                                        vf::hex(op) + " text '" + Teakra::Disassembler::Do(op, x, aa) + "'");
    }
    return vf::Result::pass();
}

// D3: whatever instruction ran, the words are still views of the register state: every word read through the real accessor equals
// the layout applied to the resulting state (a field left wider than its slot by some handler shows up as a word that reads differently)
vf::Result sub_D3(uint16_t op, uint16_t x, uint64_t seed) {
    const optable::Info& info = optable::info(op);
    if (info.entry < 0)
        return vf::Result::pass();
    icase::Machine& m = sut();
    icase::ICase c;
    c.st = gen_plain_state(seed);
    for (int i = 0; i < 3; ++i)
        c.st[flat::F_ip + i] = 0;
    c.st[flat::F_ipv] = 0;
    c.st[flat::F_lp] = 0;
    c.st[flat::F_bcn] = 0;
    c.opcode = op;
    c.expansion = x;
    vf::Stream s(seed ^ 0xD3);
    c.pokes = icase::gen_pokes(s, c.st, op, x);
    icase::IResult r = m.exec(c);
    if (r.outcome != 0)
        return vf::Result::pass();
    for (int w = 0; w < NW; ++w) {
        uint16_t real = m.f.pseudo_get(m.core, w), model = layout::read(w, r.after);
        if (real != model)
            return vf::Result::fail(std::string("C20:D3:view:") + layout::words()[w].name + ":" + info.name,
                                    std::string("after ") + info.form + " (" + vf::hex(op) + " " + vf::hex(x) + ") the word " + layout::words()[w].name + " reads " +
                                        vf::hex(real) + " but the register state it is a view of says " + vf::hex(model) + " (a field wider than its slot?)");
    }
    return vf::Result::pass();
}

// D4: the loop fields of stt2 / icr stay one-bit / three-bit views while block repeats end: with d active frames (d = 1..4), the
// innermost one runs out at a nop (or is left with `break`); afterwards bcn = d - 1, lp = (d - 1 != 0), and both words read that
vf::Result sub_D4(unsigned d, unsigned how, uint64_t seed) {
    icase::Machine& m = sut();
    icase::ICase c;
    c.st = gen_plain_state(seed);
    for (int i = 0; i < 3; ++i)
        c.st[flat::F_ip + i] = 0;
    c.st[flat::F_ipv] = 0;
    c.st[flat::F_ie] = 0;
    d = 1 + (d - 1) % 4;
    c.st[flat::F_bcn] = d;
    c.st[flat::F_lp] = 1;
    static const int brk = optable::find_word("break_()", {});
    const bool use_break = how == 1 && brk >= 0;
    c.opcode = use_break ? (uint16_t)brk : 0x0000;
    c.expansion = 0x0000;
    if (!use_break) { // the innermost block ends at this nop and has no pass left
        c.st[flat::F_bk_end + (d - 1)] = c.st[flat::F_pc];
        c.st[flat::F_bk_lc + (d - 1)] = 0;
    }
    icase::IResult r = m.exec(c);
    if (r.outcome != 0)
        return vf::Result::pass();
    flat::State want = c.st;
    want[flat::F_pc] = c.st[flat::F_pc] + 1;
    want[flat::F_bcn] = d - 1;
    want[flat::F_lp] = d - 1 != 0;
    const std::string what = std::string(use_break ? "break" : "the innermost block running out") + " with " + std::to_string(d) + " active frame(s)";
    if (!(r.after == want)) {
        std::string df = flat::diff(r.after, want);
        return vf::Result::fail("C20:D4:loopstate:" + df.substr(0, df.find(':')), "after " + what + " the loop state is not (bcn - 1, lp = bcn - 1 != 0) (got vs expected) " + df);
    }
    for (int w = 0; w < NW; ++w) {
        uint16_t real = m.f.pseudo_get(m.core, w), model = layout::read(w, want);
        if (real != model)
            return vf::Result::fail(std::string("C20:D4:view:") + layout::words()[w].name, "after " + what + " the word " + layout::words()[w].name + " reads " + vf::hex(real) +
                                                                                          " but must read " + vf::hex(model));
    }
    return vf::Result::pass();
}

// generator leg: the registers the disassembler names for a vector are the ones the generator pinned into the windows
vf::Result sub_D2gen(const std::vector<uint8_t>& bytes) {
    TestCase tc;
    if (bytes.size() != sizeof tc)
        return vf::Result::pass();
    std::memcpy(&tc, bytes.data(), sizeof tc);
    const optable::Info& info = optable::info(tc.opcode);
    if (!is_ar_form(info) || info.name.rfind("modr", 0) == 0) // modr* only steps registers, it addresses no memory
        return vf::Result::pass();
    Teakra::Disassembler::ArArpSettings aa;
    aa.ar = tc.before.ar;
    aa.arp = tc.before.arp;
    auto refs = parse_refs(Teakra::Disassembler::GetTokenList(tc.opcode, tc.expand, aa));
    vf::klass("generator vectors with ar/arp addressing");
    for (auto& rf : refs) {
        uint16_t v = tc.before.r[rf.reg];
        bool m = (tc.before.mod2 >> rf.reg) & 1, br = (tc.before.mod2 >> (rf.reg + 8)) & 1;
        if (br && !m) {
            uint16_t rv = 0;
            for (int i = 0; i < 16; ++i)
                rv |= ((v >> i) & 1) << (15 - i);
            v = rv;
        }
        uint16_t base = rf.reg < 4 ? TestSpaceX : TestSpaceY;
        if (v < base || v >= base + TestSpaceSize)
            return vf::Result::fail("C20:D2:generator:" + info.name, "generator vector for " + info.form + " (" + vf::hex(tc.opcode) +
                                                                         "): the disassembler names r" + std::to_string(rf.reg) + " = " + vf::hex(tc.before.r[rf.reg]) +
                                                                         " which the generator did not pin into its window");
    }
    return vf::Result::pass();
}

vf::Result run_body(const std::string& body) {
    auto ls = vf::lines(body);
    auto t = vf::split_ws(ls.empty() ? "" : ls[0]);
    if (t.size() < 2)
        return vf::Result::pass();
    if (t[0] == "D2gen") {
        std::vector<uint8_t> bytes;
        for (size_t i = 0; i + 1 < t[1].size(); i += 2)
            bytes.push_back((uint8_t)std::strtoul(t[1].substr(i, 2).c_str(), nullptr, 16));
        return sub_D2gen(bytes);
    }
    if (t.size() < 4)
        return vf::Result::pass();
    uint64_t a = vf::unhex(t[1]), b = vf::unhex(t[2]), c = vf::unhex(t[3]);
    if (t[0] == "D1")
        return sub_D1((int)a, (uint16_t)b, c);
    if (t[0] == "D1i")
        return sub_D1i((int)a, (uint16_t)b, c);
    if (t[0] == "D2")
        return sub_D2((uint16_t)a, (uint16_t)b, c);
    if (t[0] == "D2m")
        return sub_D2m((uint16_t)a, (uint16_t)b, c);
    if (t[0] == "D3")
        return sub_D3((uint16_t)a, (uint16_t)b, c);
    if (t[0] == "D4")
        return sub_D4((unsigned)a, (unsigned)b, c);
    return vf::Result::pass();
}

} // namespace

int main(int argc, char** argv) {
    vf::init(argc, argv, "C20");
    vf::Ctx& c = vf::ctx();
    const std::string prop = "words_enum";
    if (vf::enum_replay(prop, run_body))
        return vf::finish();
    const bool thorough = c.tier == "thorough";
    const int n_states = thorough ? 64 : 8;
    c.current_prop = prop;
#define RUN(CALL, BODY)                                                                                                \
    do {                                                                                                               \
        c.current = [&] { return BODY; };                                                                              \
        vf::enum_result(prop, CALL, [&] { return BODY; }, [&] { return CALL; });                                       \
        ++c.evaluations;                                                                                               \
    } while (0)
    // D1: all 65536 values of every word; worker i takes the values with v % workers == i
    uint64_t d1 = 0;
    for (int w = 0; w < NW; ++w) {
        for (uint32_t vi = 0; vi < 0x10000; ++vi) {
            if ((int)(vi % (uint32_t)c.workers) != c.worker)
                continue;
            uint16_t v = (uint16_t)vi;
            vf::Stream s(vf::mix64(c.seed * 31 + w * 65536 + vi));
            for (int k = 0; k < n_states; ++k) {
                uint64_t seed = s.next();
                RUN(sub_D1(w, v, seed), body_of("D1", w, v, seed));
            }
            if ((vi / c.workers) % (thorough ? 4 : 32) == 0) {
                uint64_t seed = s.next();
                RUN(sub_D1i(w, v, seed), body_of("D1i", w, v, seed));
            }
            vf::note(vf::mix64(w * 65536 + vi + 1), true);
            ++d1;
            if (c.samples.size() < 4 && (vi % 16381) == (uint32_t)(5 + c.worker))
                vf::sample(std::string("D1 ") + layout::words()[w].name + " := " + vf::hex(v) + " from " + std::to_string(n_states) +
                           " generated states: read-back " + vf::hex(layout::read(w, layout::write(w, gen_plain_state(1), v))));
        }
    }
    vf::klass("(word, value) pairs enumerated", d1);
    for (int w = 0; w < NW; ++w) {
        const WordOps& o = ops_of(w);
        if (!o.have_mov)
            vf::klass(std::string("no 'mov #imm16' form for ") + layout::words()[w].name);
        if (!o.have_push)
            vf::klass(std::string("no push form for ") + layout::words()[w].name);
    }
    // D2: every first word of a form with ar/arp operands x generated ar/arp values
    uint64_t d2 = 0, d2forms = 0;
    for (uint32_t op = 0; op < 0x10000; ++op) {
        if ((int)(op % (uint32_t)c.workers) != c.worker)
            continue;
        const optable::Info& info = optable::info((uint16_t)op);
        if (info.entry < 0 || !is_ar_form(info))
            continue;
        ++d2forms;
        vf::Stream s(vf::mix64(c.seed * 131 + op));
        for (int k = 0; k < (thorough ? 512 : 96); ++k) {
            uint16_t x = (uint16_t)s.bits(16);
            uint64_t seed = s.next();
            RUN(sub_D2((uint16_t)op, x, seed), body_of("D2", op, x, seed));
            RUN(sub_D2m((uint16_t)op, x, seed), body_of("D2m", op, x, seed));
            ++d2;
        }
        if (c.samples.size() < 7 && (op % 97) == (uint32_t)c.worker) {
            Teakra::Disassembler::ArArpSettings aa{{0x2C61, 0x8E25}, {0x0421, 0x2462, 0x48A3, 0x6CE0}};
            vf::sample(info.form + " " + vf::hex(op) + ": " + Teakra::Disassembler::Do((uint16_t)op, 0, aa));
        }
    }
    // D3: every defined first word (quick: the residue class op % 4 == seed % 4), generated second word and state
    uint64_t d3 = 0;
    for (uint32_t op = 0; op < 0x10000; ++op) {
        if ((int)(op % (uint32_t)c.workers) != c.worker || (!thorough && ((op / c.workers) % 4) != (c.seed % 4)))
            continue;
        if (optable::info((uint16_t)op).entry < 0)
            continue;
        vf::Stream s(vf::mix64(c.seed * 977 + op));
        for (int k = 0; k < (thorough ? 4 : 1); ++k) {
            uint16_t x = (uint16_t)s.bits(16);
            uint64_t seed = s.next();
            RUN(sub_D3((uint16_t)op, x, seed), body_of("D3", op, x, seed));
            ++d3;
        }
    }
    vf::klass("D3: instructions after which all 19 words were re-read", d3);
    // D4: loop exits at every depth, by running out and by break
    {
        uint64_t d4 = 0;
        vf::Stream s(vf::mix64(c.seed * 31337 + c.worker));
        for (int k = 0; k < (thorough ? 4000 : 400); ++k)
            for (unsigned d = 1; d <= 4; ++d)
                for (unsigned how = 0; how < 2; ++how) {
                    uint64_t seed = s.next();
                    RUN(sub_D4(d, how, seed), body_of("D4", d, how, seed));
                    ++d4;
                }
        vf::klass("D4: block repeat exits (running out / break) at depth 1..4", d4);
    }
    vf::klass("first words with ar/arp operands", d2forms);
    vf::klass("ar/arp agreement cases (interpreter vs annotated disassembler)", d2);
    // generator leg, one full pass, by worker 0 (every worker in the thorough tier)
    if (c.worker == 0 || thorough) {
        vf::Result first;
        std::vector<uint8_t> fb;
        genstream::for_each_vector((uint32_t)vf::mix64(c.seed + 0x2020 + c.worker), sizeof(TestCase), [&](const std::vector<uint8_t>& b) {
            vf::Result r = sub_D2gen(b);
            ++c.evaluations;
            if (!r.ok && first.ok) {
                first = r;
                fb = b;
            }
        });
        if (!first.ok) {
            std::string hexs;
            char hb[4];
            for (uint8_t xx : fb) {
                std::snprintf(hb, sizeof hb, "%02x", xx);
                hexs += hb;
            }
            vf::enum_result(prop, first, [&] { return "D2gen " + hexs + "\n"; }, [&] { return sub_D2gen(fb); });
        }
    }
    c.current = nullptr;
    c.exhaustive["D1: all 65536 values of each of the 19 words (this worker's residue class)"] = true;
    if (c.subchecks.find(prop) == c.subchecks.end())
        c.subchecks[prop] = "all enumerated cases ok";
    return vf::finish();
}
