// C06 -- Run(n) is equivalent to n single-cycle steps, however it is sliced.
// A system case = DSP program from a small grammar (fillers, idle self-branch or busy loop, interrupt handlers that count,
// read/acknowledge the controller, restart timers, feed the audio FIFO, reply on the mailbox, re-enable interrupts) +
// peripheral set-up (ICU routing incl. vectored + context switch, core enables, both timers in every mode with start
// values *constructed* around the number of fillers, audio port with 0..16 queued words) + a cycle budget n + host events
// at generated cycle positions. The same case is run three times from Reset with different slicings:
//   A  one Run() between consecutive host events      B  a generated refinement of A (zero-length slices included)
//   C  n x Run(1) (n <= 5000; otherwise a second refinement)
// and at every host-event boundary and at the end the complete observation (registers incl. banks, memory digest, masked
// MMIO read-back, host views) and the ordered callback log must be identical.
#include <map>

#include "optable.h"
#include "sysinst.h"
#include "vf.h"

namespace {

using flat::State;
using sysinst::Sys;

struct Handler {
    unsigned actions = 0; // bit0 count, bit1 read ICU pending, bit2 ack all, bit3 restart timer0, bit4 audio word, bit5 mailbox reply,
                          // bit6 semaphore, bit7 early eint
    unsigned fill = 0;    // extra fillers
    unsigned ret = 0;     // 0 reti, 1 retic, 2 none (falls into an idle loop)
};
struct Event {
    uint32_t pos = 0;
    unsigned kind = 0; // 0 SendData, 1 SetSemaphore, 2 ClearSemaphore, 3 MaskSemaphore, 4 trigger, 5 DataWrite scratch, 6 RecvData
    uint32_t a = 0, b = 0;
};
struct Case {
    std::vector<unsigned> fillers;
    unsigned idle = 0; // 0 brr -1, 1 br self (busy), 2 brr -1 with a true condition, 3 brr -1 with a false condition then brr -1
    Handler h[4];
    uint16_t en[3] = {0, 0, 0}, env = 0;
    unsigned core = 0; // ie, im0-2, imv, ic0-2, ccnta, crep
    unsigned vctx = 0;
    struct Tm {
        unsigned mode = 0;
        uint32_t start = 0;
        unsigned mu = 0, pause = 0, on = 0;
    } tm[2];
    unsigned audio_words = 0, audio_on = 0;
    unsigned audio1_words = 0, audio1_on = 0; // the second audio port (the facade installs no audio callback on it)
    uint32_t n = 100;
    std::vector<Event> events;
    uint64_t slice_seed = 0;
};

Sys& sys() {
    static Sys* s = new Sys;
    return *s;
}
uint16_t W(const std::string& form, const std::vector<long>& v) {
    static std::map<std::string, int> cache;
    std::string key = form;
    for (long x : v)
        key += "," + std::to_string(x);
    auto it = cache.find(key);
    if (it == cache.end()) {
        it = cache.emplace(key, optable::find_word(form, v)).first;
        if (it->second < 0)
            vf::add_note("inconclusive: instruction form not found: " + key);
    }
    return (uint16_t)(it->second < 0 ? 0 : it->second);
}

// ---- code generation -------------------------------------------------------------------------------------------------------
void emit_filler(std::vector<uint16_t>& c, unsigned kind, unsigned salt) {
    switch (kind % 6) {
    case 0:
        c.push_back(0x0000); // nop
        break;
    case 1:
        c.push_back(W("moda4(ModaOp#16,Ax,CondValue)", {13, 0, 0})); // inc a0
        break;
    case 2:
        c.push_back(W("moda4(ModaOp#16,Ax,CondValue)", {14, 1, 0})); // dec a1
        break;
    case 3:
        c.push_back(W("mov(Imm16,Register)", {-1, 2})); // mov #imm, r2
        c.push_back((uint16_t)(0x1000 + salt));
        break;
    case 4:
        c.push_back(W("alb(AlbOp,Imm16,MemImm8)", {3, -1, (long)(0x10 + salt % 8)})); // addv #1, [page:0x10+k]
        c.push_back(1);
        break;
    default:
        c.push_back(W("alu(AlmOp#8,Imm16,Ax)", {3, -1, 0})); // add #imm16, a0
        c.push_back((uint16_t)(3 + salt));
        break;
    }
}
void emit_store_imm(std::vector<uint16_t>& c, uint16_t addr, uint16_t value) { // mov #value, a0l ; mov a0l, [addr]   (clobbers a0)
    c.push_back(W("mov(Imm16,Register)", {-1, 26}));
    c.push_back(value);
    c.push_back(W("mov(Axl,MemImm16)", {0, -1}));
    c.push_back(addr);
}

const uint32_t kMain = 0x0100, kHandlerBody = 0x0400, kVector = 0x0800;
const uint16_t kScratchPage = 0x20; // data 0x2000..0x20FF

std::map<uint32_t, uint16_t> build_program(const Case& c) {
    std::map<uint32_t, uint16_t> mem;
    auto place = [&](uint32_t at, const std::vector<uint16_t>& code) {
        for (size_t i = 0; i < code.size(); ++i)
            mem[at + (uint32_t)i] = code[i];
    };
    // main
    std::vector<uint16_t> main;
    main.push_back(W("load_page(Imm8)", {(long)kScratchPage}));
    for (size_t i = 0; i < c.fillers.size(); ++i)
        emit_filler(main, c.fillers[i], (unsigned)i);
    uint32_t idle_at = kMain + (uint32_t)main.size();
    switch (c.idle % 4) {
    case 0:
        main.push_back(W("brr(RelAddr7,CondValue)", {0x7F, 0}));
        break;
    case 1:
        main.push_back(W("br(Address18_16,Address18_2,CondValue)", {-1, 0, 0}));
        main.push_back((uint16_t)idle_at);
        break;
    case 2: // condition "ge" after clearing the minus flag is not guaranteed; use the always-true-by-construction "nr": fr == 0 after reset
        main.push_back(W("brr(RelAddr7,CondValue)", {0x7F, 12}));
        main.push_back(W("brr(RelAddr7,CondValue)", {0x7F, 0}));
        break;
    default: // a self-branch whose condition is false (iu0 == 1 never holds) falls through into code with visible effects
             // (a not-taken self-branch is no idle loop: nothing may be fast-forwarded over these instructions), then the real idle loop
        main.push_back(W("brr(RelAddr7,CondValue)", {0x7F, 14}));
        main.push_back(0x0000);
        for (unsigned k = 0; k < 10; ++k)
            emit_filler(main, (k * 5 + (unsigned)c.fillers.size()) % 6 == 0 ? 1 : (k * 5 + (unsigned)c.fillers.size()) % 6, 40 + k);
        main.push_back(W("brr(RelAddr7,CondValue)", {0x7F, 0}));
        break;
    }
    place(kMain, main);
    // handlers: the fixed vectors jump to bodies
    for (unsigned l = 0; l < 4; ++l) {
        uint32_t body = kHandlerBody + 0x80 * l;
        if (l < 3)
            place(0x0006 + 8 * l, {W("br(Address18_16,Address18_2,CondValue)", {-1, 0, 0}), (uint16_t)body});
        else
            place(kVector, {W("br(Address18_16,Address18_2,CondValue)", {-1, 0, 0}), (uint16_t)body});
        const Handler& h = c.h[l];
        std::vector<uint16_t> b;
        b.push_back(W("load_page(Imm8)", {(long)kScratchPage}));
        if (h.actions & 0x80)
            b.push_back(W("eint()", {}));
        if (h.actions & 0x01) {
            b.push_back(W("alb(AlbOp,Imm16,MemImm8)", {3, -1, (long)(0x40 + l)})); // entry counter of this line
            b.push_back(1);
        }
        if (h.actions & 0x02) { // mov [0x8200], a1 ; mov a1l, [0x2050+l]
            b.push_back(W("mov(MemImm16,Ax)", {-1, 1}));
            b.push_back(0x8200);
            b.push_back(W("mov(Axl,MemImm16)", {1, -1}));
            b.push_back((uint16_t)(0x2050 + l));
        }
        if (h.actions & 0x04)
            emit_store_imm(b, 0x8202, 0xFFFF);
        if (h.actions & 0x08) {
            emit_store_imm(b, 0x8024, (uint16_t)(3 + l));
            emit_store_imm(b, 0x8020, (uint16_t)(0x0400 | ((c.tm[0].mode & 3) << 2) | (c.tm[0].mu ? 0x200 : 0)));
        }
        if (h.actions & 0x10)
            emit_store_imm(b, 0x82C6, (uint16_t)(0x7000 + l));
        if (h.actions & 0x20)
            emit_store_imm(b, (uint16_t)(0x80C0 + 4 * (l % 3)), (uint16_t)(0xC0DE + l));
        if (h.actions & 0x40)
            emit_store_imm(b, 0x80CC, (uint16_t)(1u << l));
        for (unsigned k = 0; k < h.fill; ++k)
            emit_filler(b, k + l, k);
        if (h.ret == 0)
            b.push_back(W("reti(CondValue)", {0}));
        else if (h.ret == 1)
            b.push_back(W("retic(CondValue)", {0}));
        else
            b.push_back(W("brr(RelAddr7,CondValue)", {0x7F, 0}));
        place(body, b);
    }
    return mem;
}

void setup(Sys& s, const Case& c) {
    s.t->Reset();
    s.log.clear();
    s.ext.bytes.clear();
    for (auto& kv : build_program(c))
        s.t->ProgramWrite(kv.first, kv.second);
    for (int l = 0; l < 3; ++l)
        s.t->MMIOWrite((uint16_t)(0x206 + 2 * l), c.en[l]);
    s.t->MMIOWrite(0x20C, c.env);
    for (int irq = 0; irq < 16; ++irq) {
        s.t->MMIOWrite((uint16_t)(0x212 + 4 * irq), (uint16_t)(((c.vctx >> irq) & 1) ? 0x8000 : 0));
        s.t->MMIOWrite((uint16_t)(0x214 + 4 * irq), (uint16_t)kVector);
    }
    State st = s.regs();
    st[flat::F_pc] = kMain;
    st[flat::F_sp] = 0x1800;
    st[flat::F_ie] = c.core & 1;
    for (int l = 0; l < 3; ++l) {
        st[flat::F_im + l] = (c.core >> (1 + l)) & 1;
        st[flat::F_ic + l] = (c.core >> (5 + l)) & 1;
    }
    st[flat::F_imv] = (c.core >> 4) & 1;
    st[flat::F_ccnta] = (c.core >> 8) & 1;
    st[flat::F_crep] = (c.core >> 9) & 1;
    st[flat::F_ss_im + 0] = st[flat::F_ss_im + 1] = st[flat::F_ss_im + 2] = st[flat::F_ss_imv] = 1; // handlers with a context switch keep their enables
    s.set_regs(st);
    for (int t = 0; t < 2; ++t) {
        if (!c.tm[t].on)
            continue;
        uint16_t b = (uint16_t)(0x20 + 0x10 * t);
        s.t->MMIOWrite(b + 4, (uint16_t)c.tm[t].start);
        s.t->MMIOWrite(b + 6, (uint16_t)(c.tm[t].start >> 16));
        s.t->MMIOWrite(b, (uint16_t)(0x0400 | ((c.tm[t].mode & 3) << 2) | (c.tm[t].mu ? 0x200 : 0) | (c.tm[t].pause ? 0x100 : 0)));
    }
    for (unsigned k = 0; k < c.audio_words; ++k)
        s.t->MMIOWrite(0x2C6, (uint16_t)(0x100 + k));
    if (c.audio_on)
        s.t->MMIOWrite(0x2BE, 1);
    for (unsigned k = 0; k < c.audio1_words; ++k)
        s.t->MMIOWrite(0x2C6 + 0x80, (uint16_t)(0x200 + k));
    if (c.audio1_on)
        s.t->MMIOWrite(0x2BE + 0x80, 1);
}

void apply_event(Sys& s, const Event& e) {
    switch (e.kind % 7) {
    case 0:
        s.t->SendData((uint8_t)(e.a % 3), (uint16_t)e.b);
        break;
    case 1:
        s.t->SetSemaphore((uint16_t)e.b);
        break;
    case 2:
        s.t->ClearSemaphore((uint16_t)e.b);
        break;
    case 3:
        s.t->MaskSemaphore((uint16_t)e.b);
        break;
    case 4:
        s.t->MMIOWrite(0x204, (uint16_t)(1u << (e.a % 16)));
        break;
    case 5:
        s.t->DataWrite((uint16_t)(0x2080 + e.a % 16), (uint16_t)e.b);
        break;
    default:
        s.log.push_back({'v', e.a % 3, s.t->RecvData((uint8_t)(e.a % 3)), 0});
        break;
    }
}

struct Trace {
    std::vector<std::vector<uint64_t>> obs;
    std::vector<size_t> log_len;
    std::vector<sysinst::Event> log;
    std::string outcome;
};

// slices: for every segment (between host events) a list of Run() arguments summing to the segment length
Trace run_sliced(Sys& s, const Case& c, const std::vector<std::vector<uint32_t>>& slices) {
    Trace t;
    setup(s, c);
    std::vector<Event> ev = c.events;
    std::sort(ev.begin(), ev.end(), [](const Event& a, const Event& b) { return a.pos < b.pos; });
    size_t seg = 0;
    // An exceptional exit (unimplemented feature / assertion) abandons the rest of that Run() call, so nothing after it is
    // comparable between slicings: the run stops there and only the outcome and the boundaries before it are compared.
    auto run_segment = [&](size_t k) {
        for (uint32_t n : slices[k]) {
            auto o = s.guarded([&] { s.t->Run(n); });
            if (o.kind != 0) {
                t.outcome = "segment " + std::to_string(k) + ": " + o.what;
                return false;
            }
        }
        return true;
    };
    for (size_t e = 0; e <= ev.size(); ++e) {
        if (!run_segment(seg++))
            break;
        t.obs.push_back(s.observe());
        t.log_len.push_back(s.log.size());
        if (e < ev.size())
            apply_event(s, ev[e]);
    }
    t.log = s.log;
    return t;
}

std::vector<uint32_t> segment_lengths(const Case& c) {
    std::vector<Event> ev = c.events;
    std::sort(ev.begin(), ev.end(), [](const Event& a, const Event& b) { return a.pos < b.pos; });
    std::vector<uint32_t> len;
    uint32_t at = 0;
    for (auto& e : ev) {
        uint32_t p = std::min(e.pos, c.n);
        len.push_back(p - at);
        at = p;
    }
    len.push_back(c.n - at);
    return len;
}

std::vector<std::vector<uint32_t>> refine(const std::vector<uint32_t>& len, uint64_t seed, bool all_ones) {
    vf::Stream s(seed);
    std::vector<std::vector<uint32_t>> out;
    for (uint32_t L : len) {
        std::vector<uint32_t> v;
        if (all_ones) {
            v.assign(L, 1);
        } else {
            uint32_t left = L;
            while (left) {
                uint32_t piece;
                switch (s.below(6)) {
                case 0:
                    piece = 0; // zero-length call
                    break;
                case 1:
                    piece = 1;
                    break;
                case 2:
                    piece = 1 + (uint32_t)s.below(4);
                    break;
                case 3:
                    piece = 1 + (uint32_t)s.below(40);
                    break;
                default:
                    piece = 1 + (uint32_t)s.below(left);
                    break;
                }
                piece = std::min(piece, left);
                v.push_back(piece);
                left -= piece;
            }
            if (s.chance(1, 3))
                v.push_back(0);
        }
        out.push_back(v);
    }
    return out;
}

// ---- codec -------------------------------------------------------------------------------------------------------------------
std::string encode(const Case& c) {
    std::string s = "fillers";
    for (auto f : c.fillers)
        s += " " + vf::hex(f);
    s += "\nidle " + vf::hex(c.idle) + "\n";
    for (int l = 0; l < 4; ++l)
        s += "handler " + vf::hex(l) + " " + vf::hex(c.h[l].actions) + " " + vf::hex(c.h[l].fill) + " " + vf::hex(c.h[l].ret) + "\n";
    s += "icu " + vf::hex(c.en[0]) + " " + vf::hex(c.en[1]) + " " + vf::hex(c.en[2]) + " " + vf::hex(c.env) + " " + vf::hex(c.vctx) + "\n";
    s += "core " + vf::hex(c.core) + "\n";
    for (int t = 0; t < 2; ++t)
        s += "timer " + vf::hex(t) + " " + vf::hex(c.tm[t].on) + " " + vf::hex(c.tm[t].mode) + " " + vf::hex(c.tm[t].start) + " " + vf::hex(c.tm[t].mu) + " " +
             vf::hex(c.tm[t].pause) + "\n";
    s += "audio " + vf::hex(c.audio_on) + " " + vf::hex(c.audio_words) + " " + vf::hex(c.audio1_on) + " " + vf::hex(c.audio1_words) + "\n";
    s += "n " + vf::hex(c.n) + " " + vf::hex(c.slice_seed) + "\n";
    for (auto& e : c.events)
        s += "event " + vf::hex(e.pos) + " " + vf::hex(e.kind) + " " + vf::hex(e.a) + " " + vf::hex(e.b) + "\n";
    return s;
}
Case decode(const std::string& text) {
    Case c;
    for (auto& l : vf::lines(text)) {
        auto t = vf::split_ws(l);
        if (t.empty())
            continue;
        auto H = [&](size_t i) { return i < t.size() ? vf::unhex(t[i]) : 0; };
        if (t[0] == "fillers")
            for (size_t i = 1; i < t.size(); ++i)
                c.fillers.push_back((unsigned)H(i));
        else if (t[0] == "idle")
            c.idle = (unsigned)H(1);
        else if (t[0] == "handler") {
            Handler& h = c.h[H(1) % 4];
            h.actions = (unsigned)H(2);
            h.fill = (unsigned)H(3) % 32;
            h.ret = (unsigned)H(4) % 3;
        } else if (t[0] == "icu") {
            c.en[0] = (uint16_t)H(1);
            c.en[1] = (uint16_t)H(2);
            c.en[2] = (uint16_t)H(3);
            c.env = (uint16_t)H(4);
            c.vctx = (unsigned)H(5);
        } else if (t[0] == "core")
            c.core = (unsigned)H(1);
        else if (t[0] == "timer") {
            auto& T = c.tm[H(1) % 2];
            T.on = (unsigned)H(2);
            T.mode = (unsigned)H(3) % 4;
            T.start = (uint32_t)H(4);
            T.mu = (unsigned)H(5);
            T.pause = (unsigned)H(6);
        } else if (t[0] == "audio") {
            c.audio_on = (unsigned)H(1);
            c.audio_words = (unsigned)H(2) % 17;
            c.audio1_on = t.size() > 3 ? (unsigned)H(3) & 1 : 0;
            c.audio1_words = t.size() > 4 ? (unsigned)H(4) % 17 : 0;
        } else if (t[0] == "n") {
            c.n = (uint32_t)std::min<uint64_t>(H(1), 300000);
            c.slice_seed = H(2);
        } else if (t[0] == "event") {
            Event e;
            e.pos = (uint32_t)H(1);
            e.kind = (unsigned)H(2);
            e.a = (uint32_t)H(3);
            e.b = (uint32_t)H(4);
            c.events.push_back(e);
        }
    }
    return c;
}

Case build(uint64_t seed) {
    vf::Stream s(seed);
    Case c;
    unsigned K = (unsigned)s.below(13);
    for (unsigned i = 0; i < K; ++i)
        c.fillers.push_back((unsigned)s.below(6));
    c.idle = (unsigned)(s.chance(1, 6) ? 1 : (s.chance(1, 5) ? 2 + s.below(2) : 0));
    for (int l = 0; l < 4; ++l) {
        c.h[l].actions = (unsigned)(s.bits(8) & (s.chance(1, 2) ? 0xFF : 0x07));
        if (s.chance(3, 4))
            c.h[l].actions |= 1;
        c.h[l].fill = (unsigned)s.below(s.chance(1, 3) ? 31 : 4);
        c.h[l].ret = (unsigned)(s.chance(1, 8) ? 2 : s.below(2));
    }
    // routing: the IRQs that matter (timers 10/9, audio 11, mailbox 14, dma 15, a few software ones) go somewhere
    uint32_t en[4] = {0, 0, 0, 0};
    for (int irq = 0; irq < 16; ++irq) {
        unsigned k = (unsigned)s.below(7);
        if (k < 4)
            en[k] |= 1u << irq;
        else if (k == 4) {
            en[0] |= 1u << irq;
            en[2] |= 1u << irq;
        }
    }
    c.en[0] = (uint16_t)en[0];
    c.en[1] = (uint16_t)en[1];
    c.en[2] = (uint16_t)en[2];
    c.env = (uint16_t)en[3];
    c.vctx = (unsigned)s.bits(16);
    c.core = (unsigned)s.bits(10);
    if (s.chance(4, 5))
        c.core |= 0x1F; // everything enabled
    // cycle count until the idle branch executes for the first time: load page + fillers, then the branch itself
    unsigned idle_cycle = 1 + K + 1;
    for (int t = 0; t < 2; ++t) {
        auto& T = c.tm[t];
        T.on = s.chance(t == 0 ? 5 : 2, 6);
        T.mode = (unsigned)s.below(4);
        if (s.chance(1, 2))
            T.start = (uint32_t)std::max<int>(0, (int)idle_cycle + (int)s.below(7) - 3); // fires around the first idle cycle
        else
            T.start = (uint32_t)(s.chance(1, 2) ? s.below(41) : (s.chance(1, 2) ? s.below(3000) : s.below(0x30000)));
        T.mu = (unsigned)s.bits(1);
        T.pause = s.chance(1, 10);
    }
    c.audio_words = (unsigned)(s.chance(1, 2) ? s.below(17) : 0);
    c.audio_on = s.chance(1, 2);
    c.audio1_words = (unsigned)(s.chance(1, 3) ? s.below(17) : 0);
    c.audio1_on = s.chance(1, 3);
    c.n = (uint32_t)(s.chance(1, 3) ? 1 + s.below(200) : (s.chance(1, 2) ? 1 + s.below(5000) : 1 + s.below(20000)));
    if (s.chance(1, 12))
        c.n = (uint32_t)(66000 + s.below(140000)); // slices longer than 2^16 cycles (the idle loop makes them cheap)
    unsigned ne = (unsigned)s.below(5);
    for (unsigned i = 0; i < ne; ++i) {
        Event e;
        e.pos = (uint32_t)s.below(c.n + 1);
        e.kind = (unsigned)s.below(7);
        e.a = (uint32_t)s.below(16);
        e.b = (uint32_t)s.bits(16);
        c.events.push_back(e);
    }
    c.slice_seed = s.next();
    return c;
}

Case minimise(const Case& c0, const std::function<bool(const Case&)>& still) {
    Case c = c0;
    auto attempt = [&](const std::function<void(Case&)>& f) {
        Case t = c;
        f(t);
        if (still(t))
            c = t;
    };
    for (int pass = 0; pass < 2; ++pass) {
        while (!c.events.empty()) {
            Case t = c;
            t.events.pop_back();
            if (!still(t))
                break;
            c = t;
        }
        for (uint32_t n : {10u, 20u, 40u, 100u, 400u, 2000u})
            if (n < c.n)
                attempt([&](Case& t) { t.n = n; });
        for (int l = 0; l < 4; ++l) {
            attempt([&](Case& t) { t.h[l].actions = 0; });
            attempt([&](Case& t) { t.h[l].fill = 0; });
            attempt([&](Case& t) { t.h[l].ret = 0; });
            for (int b = 0; b < 8; ++b)
                attempt([&](Case& t) { t.h[l].actions &= ~(1u << b); });
        }
        attempt([&](Case& t) { t.tm[1].on = 0; });
        attempt([&](Case& t) { t.tm[0].on = 0; });
        attempt([&](Case& t) { t.audio_on = 0; });
        attempt([&](Case& t) { t.audio_words = 0; });
        attempt([&](Case& t) { t.audio1_on = 0; });
        attempt([&](Case& t) { t.audio1_words = 0; });
        attempt([&](Case& t) { t.fillers.clear(); });
        while (!c.fillers.empty()) {
            Case t = c;
            t.fillers.pop_back();
            if (t.tm[0].start)
                --t.tm[0].start;
            if (!still(t))
                break;
            c = t;
        }
        for (int t2 = 0; t2 < 2; ++t2) {
            attempt([&](Case& t) { t.tm[t2].mode = 0; });
            attempt([&](Case& t) { t.tm[t2].mu = 0; });
        }
        attempt([&](Case& t) { t.env = 0; });
        attempt([&](Case& t) { t.en[1] = 0; });
        attempt([&](Case& t) { t.en[2] = 0; });
        attempt([&](Case& t) { t.en[0] &= 0x0400; });
        attempt([&](Case& t) { t.vctx = 0; });
        attempt([&](Case& t) { t.core &= 0x1F; });
        attempt([&](Case& t) { t.idle = 0; });
    }
    return c;
}

// triage aid (C06_TRACE=1 with --replay): for every prefix length k, one Run(k) from Reset against the single-stepped run
void trace_prefixes(const Case& c0) {
    Sys& s = sys();
    std::vector<std::string> names;
    s.observe(&names);
    std::vector<std::vector<uint64_t>> step;
    for (uint32_t k = 0; k <= c0.n; ++k) {
        Case c = c0;
        c.n = k;
        std::vector<uint32_t> len = segment_lengths(c);
        auto A = refine(len, 0, false), C = refine(len, 0, true);
        for (size_t i = 0; i < len.size(); ++i)
            A[i] = {len[i]};
        Trace ta = run_sliced(s, c, A), tc = run_sliced(s, c, C);
        if (ta.obs.empty() || tc.obs.empty())
            continue;
        if (ta.obs.back() != tc.obs.back()) {
            std::fprintf(stderr, "first differing prefix: n=%u: %s\n  outcomes: '%s' vs '%s'\n", k,
                         sysinst::first_difference(ta.obs.back(), tc.obs.back(), names, 12).c_str(), ta.outcome.c_str(), tc.outcome.c_str());
            for (uint32_t j = k > 24 ? k - 24 : 0; j <= k + 2; ++j) {
                Case d = c0;
                d.n = j;
                std::vector<uint32_t> l2 = segment_lengths(d);
                auto A2 = refine(l2, 0, false), C2 = refine(l2, 0, true);
                for (size_t i = 0; i < l2.size(); ++i)
                    A2[i] = {l2[i]};
                Trace a2 = run_sliced(s, d, A2);
                uint32_t ca = s.t->MMIORead(0x28) | (uint32_t)s.t->MMIORead(0x2A) << 16;
                flat::State ra = s.regs();
                Trace c2 = run_sliced(s, d, C2);
                uint32_t cc = s.t->MMIORead(0x28) | (uint32_t)s.t->MMIORead(0x2A) << 16;
                flat::State rc2 = s.regs();
                std::fprintf(stderr, "  n=%u one-call pc=%llx ie=%llu ipv=%llu ip2=%llu sp=%llx t0=%x | steps pc=%llx ie=%llu ipv=%llu ip2=%llu sp=%llx t0=%x\n", j,
                             (unsigned long long)ra[flat::F_pc], (unsigned long long)ra[flat::F_ie], (unsigned long long)ra[flat::F_ipv],
                             (unsigned long long)ra[flat::F_ip + 2], (unsigned long long)ra[flat::F_sp], ca, (unsigned long long)rc2[flat::F_pc],
                             (unsigned long long)rc2[flat::F_ie], (unsigned long long)rc2[flat::F_ipv], (unsigned long long)rc2[flat::F_ip + 2],
                             (unsigned long long)rc2[flat::F_sp], cc);
            }
            return;
        }
    }
    std::fprintf(stderr, "no differing prefix up to n=%u\n", c0.n);
}

vf::Result check(const Case& c) {
    Sys& s = sys();
    if (std::getenv("C06_TRACE"))
        trace_prefixes(c);
    std::vector<uint32_t> len = segment_lengths(c);
    auto A = refine(len, 0, false);
    for (size_t i = 0; i < len.size(); ++i)
        A[i] = {len[i]}; // coarsest: one call per segment
    auto B = refine(len, c.slice_seed, false);
    bool ones = c.n <= 5000;
    auto C = refine(len, c.slice_seed ^ 0xABCDEF, ones);
    Trace ta = run_sliced(s, c, A), tb = run_sliced(s, c, B), tc = run_sliced(s, c, C);
    std::vector<std::string> names;
    s.observe(&names);
    auto cmp = [&](const Trace& x, const Trace& y, const char* what) -> vf::Result {
        if (x.outcome != y.outcome)
            return vf::Result::fail(std::string("C06:outcome:") + what, std::string("runs end differently: '") + x.outcome + "' vs '" + y.outcome + "' (" + what + ")");
        for (size_t k = 0; k < x.obs.size() && k < y.obs.size(); ++k) {
            if (x.obs[k] != y.obs[k]) {
                std::string d = sysinst::first_difference(x.obs[k], y.obs[k], names);
                std::string first = d.substr(0, d.find(':'));
                return vf::Result::fail(std::string("C06:state:") + what + ":" + first,
                                        "at boundary " + std::to_string(k) + " of " + std::to_string(x.obs.size()) + " (" + what + ", n=" + std::to_string(c.n) +
                                            ") the observations differ: " + d);
            }
            size_t la = x.log_len[k], lb = y.log_len[k];
            if (la != lb || !std::equal(x.log.begin(), x.log.begin() + la, y.log.begin()))
                return vf::Result::fail(std::string("C06:callbacks:") + what, "at boundary " + std::to_string(k) + " the ordered callback logs differ (" +
                                                                                  std::to_string(la) + " vs " + std::to_string(lb) + " events, " + what + ")");
        }
        return vf::Result::pass();
    };
    vf::Result r = cmp(ta, tb, "one-call vs refined");
    if (!r.ok)
        return r;
    r = cmp(ta, tc, ones ? "one-call vs single-steps" : "one-call vs second refinement");
    if (!r.ok)
        return r;
    // classes / non-triviality, from the single-stepped run's final state
    bool entered = false, audio_frames = false;
    for (auto& e : ta.log)
        if (e.kind == 'A')
            audio_frames = true;
    uint64_t counters = 0;
    for (unsigned l = 0; l < 4; ++l)
        counters += s.t->DataRead((uint16_t)(0x2040 + l), true);
    entered = counters != 0;
    if (!ta.outcome.empty())
        vf::klass("ended in an exceptional exit (compared up to it)");
    if (entered)
        vf::klass("a handler ran");
    if (audio_frames)
        vf::klass("audio frames delivered");
    if (c.audio1_on && c.audio1_words)
        vf::klass("second audio port transmitting (no audio callback installed)");
    if (c.idle != 1)
        vf::klass("idle self-branch");
    if (ones)
        vf::klass("compared against n x Run(1)");
    if (c.n > 65536)
        vf::klass("budget above 2^16 cycles");
    if (c.tm[0].on && c.tm[0].start >= c.fillers.size() && c.tm[0].start <= c.fillers.size() + 4)
        vf::klass("timer0 fires around the first idle cycle");
    if (c.tm[0].on && c.tm[0].mode == 1 && c.tm[0].start <= 1)
        vf::klass("auto-restart with start 0/1");
    bool nontrivial = c.idle != 1 && (entered || audio_frames) && c.n > c.fillers.size() + 3;
    vf::note(vf::hash_str(encode(c)), nontrivial);
    if (nontrivial && vf::ctx().samples.size() < 6 && c.events.size() <= 1)
        vf::sample(encode(c));
    return vf::Result::pass();
}

} // namespace

int main(int argc, char** argv) {
    vf::init(argc, argv, "C06");
    vf::Property<Case> p;
    p.name = "run_slicing";
    p.gen = [] { return rc::gen::map(rc::gen::resize(100, rc::gen::arbitrary<uint64_t>()), [](uint64_t v) { return build(v); }); };
    p.check = check;
    p.encode = encode;
    p.decode = decode;
    p.minimise = minimise;
    vf::run(p);
    return vf::finish();
}
