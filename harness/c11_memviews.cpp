// C11 -- DSP-side and host-side views of program and data memory are the same bytes.
// Generated histories of writes through every path (raw bytes, ProgramWrite, DataWrite with and without MMIO bypass,
// DataWriteA32, guest stores of six addressing forms, push, movd) on a real Teakra instance (own memory or a
// caller-supplied buffer), with generated bank (MIU_ZPAGE) and MMIO window base. A byte-array model carries the two
// formulas of the property; after every write every reader (raw bytes, ProgramRead, DataRead, DataReadA32, instruction
// fetch, five guest load forms, movp) must return the model's value for the cell and the whole 512 KiB array must
// equal the model. MMIO clause: a DSP-path access inside the window reaches the peripheral register, never the memory
// underneath; with bypass it reaches the memory and never the register.
#include <map>

#include "icase.h"
#include "optable.h"
#include "sysinst.h"
#include "vf.h"

namespace {

using sysinst::Sys;

enum Writer : int { WRaw, WProg, WDataBypass, WData, WA32, WGuestRn, WGuestPage, WGuestImm16, WGuestR7Imm16, WGuestR7Imm7, WGuestPush, WGuestMovd, NWRITER };
const char* kWriterName[] = {"raw", "ProgramWrite", "DataWrite(bypass)", "DataWrite", "DataWriteA32", "guest [Rn]", "guest [page:imm8]", "guest [imm16]",
                             "guest [r7+imm16]", "guest [r7+imm7s]", "guest push", "guest movd"};
enum Reader : int { RRaw, RProg, RDataBypass, RData, RA32, RFetch, RGuestRn, RGuestPage, RGuestImm16, RGuestR7Imm16, RGuestSp, RGuestMovp, NREADER };
const char* kReaderName[] = {"raw", "ProgramRead", "DataRead(bypass)", "DataRead", "DataReadA32", "instruction fetch", "guest [Rn]", "guest [page:imm8]",
                             "guest [imm16]", "guest [r7+imm16]", "guest [sp]", "guest movp"};

struct Op {
    int writer = 0;
    uint32_t addr = 0; // data writers: 16-bit data address; program writers / raw: 18-bit word address
    uint16_t value = 0;
    uint16_t z = 0;    // bank
    uint16_t base = 0x8000;
    uint16_t reg = 0;  // MMIO clause: which plain register (index into kPlainRegs), 0xFFFF = none
};
struct Case {
    bool user_memory = false;
    std::vector<Op> ops;
};

const uint16_t kPlainRegs[] = {0x24, 0x26, 0x34, 0x36, 0x206, 0x208, 0x20C, 0x214, 0x218, 0x0CE, 0x2A2};
const uint32_t kCode = 0x3FF00; // scratch program words for guest instructions (= data bank 1, address 0xFF00..)

Sys& sys(bool user) {
    static Sys* own = new Sys(true);
    static Sys* usr = new Sys(false);
    return user ? *usr : *own;
}

uint16_t W(const std::string& form, const std::vector<long>& v) {
    static std::map<std::string, int> cache;
    std::string key = form;
    for (long x : v)
        key += "," + std::to_string(x);
    auto it = cache.find(key);
    if (it == cache.end()) {
        it = cache.emplace(key, optable::find_word(form, v)).first;
        if (it->second < 0)
            vf::add_note("inconclusive: instruction form not found: " + key);
    }
    return (uint16_t)(it->second < 0 ? 0 : it->second);
}

std::string encode(const Case& c) {
    std::string s = std::string("memory ") + (c.user_memory ? "user" : "own") + "\n";
    for (auto& op : c.ops)
        s += "op " + vf::hex(op.writer) + " " + vf::hex(op.addr) + " " + vf::hex(op.value) + " " + vf::hex(op.z) + " " + vf::hex(op.base) + " " + vf::hex(op.reg) + "\n";
    return s;
}
Case decode(const std::string& text) {
    Case c;
    for (auto& l : vf::lines(text)) {
        auto t = vf::split_ws(l);
        if (t.size() >= 2 && t[0] == "memory")
            c.user_memory = t[1] == "user";
        if (t.size() >= 7 && t[0] == "op") {
            Op op;
            op.writer = (int)vf::unhex(t[1]) % NWRITER;
            op.addr = (uint32_t)vf::unhex(t[2]);
            op.value = (uint16_t)vf::unhex(t[3]);
            op.z = (uint16_t)vf::unhex(t[4]) & 1;
            op.base = (uint16_t)vf::unhex(t[5]);
            op.reg = (uint16_t)vf::unhex(t[6]);
            c.ops.push_back(op);
        }
    }
    return c;
}

struct World {
    Sys& s;
    std::vector<uint8_t> model;
    uint16_t z = 0, base = 0x8000;
    explicit World(Sys& sy) : s(sy), model(Teakra::DspMemorySize, 0) {}
    uint16_t mget(uint32_t w) const {
        return (uint16_t)(model[2 * w] | (model[2 * w + 1] << 8));
    }
    void mput(uint32_t w, uint16_t v) {
        model[2 * w] = (uint8_t)v;
        model[2 * w + 1] = (uint8_t)(v >> 8);
    }
    uint32_t data_word(uint16_t a) const {
        return 0x20000u + 0x10000u * z + a;
    }
    bool in_window(uint16_t a) const {
        return a >= base && (uint32_t)a < (uint32_t)base + 0x800;
    }
    // run one guest instruction placed in the scratch code page; returns false when it did not complete
    bool guest(const std::vector<uint16_t>& code, flat::State st, flat::State* after = nullptr) {
        for (size_t i = 0; i < code.size(); ++i) {
            s.t->ProgramWrite(kCode + (uint32_t)i, code[i]);
            mput(kCode + (uint32_t)i, code[i]);
        }
        st[flat::F_pc] = kCode;
        s.set_regs(st);
        auto o = s.guarded([&] { s.t->Run(1); });
        if (after)
            *after = s.regs();
        return o.kind == 0;
    }
};

flat::State plain_state() {
    flat::State st = flat::reset_state();
    st[flat::F_sat] = 1;
    st[flat::F_sata] = 1;
    st[flat::F_sp] = 0x1000;
    return st;
}

// addresses the scratch code page must not collide with
bool collides_with_code(uint32_t word) {
    return word >= kCode - 2 && word < kCode + 8;
}

// ---- writers ------------------------------------------------------------------------------------------------------------
// returns the word address written, or -1 if this writer does not apply to the op
long do_write(World& w, const Op& op, std::string& how) {
    Sys& s = w.s;
    uint16_t v = op.value;
    flat::State st = plain_state();
    switch (op.writer) {
    case WRaw: {
        uint32_t word = op.addr & 0x3FFFF;
        uint8_t* raw = s.t->GetDspMemory();
        raw[2 * word] = (uint8_t)v;
        raw[2 * word + 1] = (uint8_t)(v >> 8);
        w.mput(word, v);
        return word;
    }
    case WProg: {
        uint32_t word = op.addr & 0x3FFFF;
        s.t->ProgramWrite(word, v);
        w.mput(word, v);
        return word;
    }
    case WDataBypass: {
        uint16_t a = (uint16_t)op.addr;
        s.t->DataWrite(a, v, true);
        w.mput(w.data_word(a), v);
        return w.data_word(a);
    }
    case WData: {
        uint16_t a = (uint16_t)op.addr;
        if (w.in_window(a))
            return -1; // MMIO clause handles the window
        s.t->DataWrite(a, v, false);
        w.mput(w.data_word(a), v);
        return w.data_word(a);
    }
    case WA32: {
        uint32_t a = op.addr & 0x1FFFF;
        s.t->DataWriteA32(a | ((op.addr & 0x20000) ? 0xABCE0000u : 0), v); // upper address bits are ignored
        w.mput(0x20000u + a, v);
        return 0x20000u + a;
    }
    default:
        break;
    }
    // guest stores: the value travels in a0l (a0 = v)
    uint16_t a = (uint16_t)op.addr;
    if (w.in_window(a))
        return -1;
    st[flat::F_a + 0] = v;
    std::vector<uint16_t> code;
    switch (op.writer) {
    case WGuestRn: {
        unsigned rn = a % 8 == 6 ? 5 : a % 8; // (Register operand list has no r6; any Rn works as the pointer)
        st[flat::F_r + rn] = a;
        code = {W("mov(Register,Rn,StepValue#4)", {26, (long)rn, 0})}; // mov a0l, [rN]
        break;
    }
    case WGuestPage:
        st[flat::F_page] = a >> 8;
        code = {W("mov(Ablh,MemImm8)", {4, (long)(a & 0xFF)})}; // Ablh code 4 = a0l
        break;
    case WGuestImm16:
        code = {W("mov(Axl,MemImm16)", {0, -1}), a};
        break;
    case WGuestR7Imm16: {
        uint16_t r7 = (uint16_t)(a * 31 + 7);
        st[flat::F_r + 7] = r7;
        code = {W("mov(Axl,MemR7Imm16)", {0, -1}), (uint16_t)(a - r7)};
        break;
    }
    case WGuestR7Imm7: {
        int off = (int)(a % 128) - 64;
        st[flat::F_r + 7] = (uint16_t)(a - off);
        code = {W("mov(Axl,MemR7Imm7s)", {0, (long)(off & 0x7F)})};
        break;
    }
    case WGuestPush:
        st[flat::F_sp] = (uint16_t)(a + 1);
        code = {W("push(Imm16)", {-1}), v};
        break;
    case WGuestMovd: {
        // program word (pcmhi:r4) := data[r0]; the source cell is prepared through the bypassing host path
        uint32_t word = op.addr & 0x3FFFF;
        if (collides_with_code(word))
            return -1;
        uint16_t src = 0x0123;
        if (w.in_window(src))
            src = (uint16_t)(w.base + 0x900);
        s.t->DataWrite(src, v, true);
        w.mput(w.data_word(src), v);
        st[flat::F_r + 0] = src;
        st[flat::F_r + 4] = (uint16_t)word;
        st[flat::F_pcmhi] = word >> 16;
        code = {W("movd(R0123,StepValue#4,R45,StepValue#4)", {0, 0, 0, 0})};
        if (!w.guest(code, st))
            return -1;
        w.mput(word, v);
        how = "movd to program word";
        return word;
    }
    default:
        return -1;
    }
    if (collides_with_code(w.data_word(a)))
        return -1;
    if (!w.guest(code, st))
        return -1;
    w.mput(w.data_word(a), v);
    return w.data_word(a);
}

// ---- readers ------------------------------------------------------------------------------------------------------------
// returns false when the reader does not apply to this cell in the current configuration
bool do_read(World& w, int reader, uint32_t word, uint16_t& got) {
    Sys& s = w.s;
    bool is_data_bank = word >= 0x20000u + 0x10000u * w.z && word < 0x30000u + 0x10000u * w.z;
    uint16_t a = (uint16_t)(word - 0x20000u - 0x10000u * w.z);
    flat::State st = plain_state(), after;
    switch (reader) {
    case RRaw: {
        const uint8_t* raw = s.t->GetDspMemory();
        got = (uint16_t)(raw[2 * word] | (raw[2 * word + 1] << 8));
        return true;
    }
    case RProg:
        got = s.t->ProgramRead(word);
        return true;
    case RDataBypass:
        if (!is_data_bank)
            return false;
        got = s.t->DataRead(a, true);
        return true;
    case RData:
        if (!is_data_bank || w.in_window(a))
            return false;
        got = s.t->DataRead(a, false);
        return true;
    case RA32:
        if (word < 0x20000)
            return false;
        got = s.t->DataReadA32((word - 0x20000) | 0x55540000u);
        return true;
    case RFetch: {
        // the cell is the second word of "mov #imm16, r2" placed right before it
        if (word < 1 || collides_with_code(word) || collides_with_code(word - 1))
            return false;
        uint16_t saved = w.mget(word - 1);
        uint16_t opc = W("mov(Imm16,Register)", {-1, 2});
        s.t->ProgramWrite(word - 1, opc);
        st[flat::F_pc] = word - 1;
        s.set_regs(st);
        auto o = s.guarded([&] { s.t->Run(1); });
        after = s.regs();
        s.t->ProgramWrite(word - 1, saved);
        if (o.kind != 0)
            return false;
        got = (uint16_t)after[flat::F_r + 2];
        return true;
    }
    default:
        break;
    }
    if (reader == RGuestMovp) {
        // r1 := program[(pcmhi:a0l)]
        if (((word * 7) ^ (word >> 5)) & 1) {
            // r1 := program[a0 & 0x3FFFF]: the whole accumulator is the address, whatever lies above bit 17 (not a sign extension,
            // saturation mode on) is ignored
            uint64_t junk = vf::mix64(word * 0x9E37ull + 5) & 0x3FFFFF; // bits 18..39
            st[flat::F_a + 0] = flat::sext40((junk << 18) | word);
            st[flat::F_sat] = 0;
            if (!w.guest({W("movp(Ax,Register)", {0, 1})}, st, &after))
                return false;
            vf::klass("movp through the full accumulator");
        } else {
            st[flat::F_a + 0] = word & 0xFFFF;
            st[flat::F_pcmhi] = word >> 16;
            if (!w.guest({W("movp(Axl,Register)", {0, 1})}, st, &after))
                return false;
        }
        got = (uint16_t)after[flat::F_r + 1];
        return true;
    }
    if (!is_data_bank || w.in_window(a) || collides_with_code(word))
        return false;
    std::vector<uint16_t> code;
    switch (reader) {
    case RGuestRn:
        st[flat::F_r + 3] = a;
        code = {W("mov(Rn,StepValue#4,Register)", {3, 0, 1})}; // mov [r3], r1
        break;
    case RGuestPage:
        st[flat::F_page] = a >> 8;
        code = {W("mov(MemImm8,RnOld)", {(long)(a & 0xFF), 1})}; // mov [page:imm8], r1
        break;
    case RGuestImm16:
        code = {W("mov(MemImm16,Ax)", {-1, 1}), a}; // -> a1
        break;
    case RGuestR7Imm16: {
        uint16_t r7 = (uint16_t)(a * 17 + 3);
        st[flat::F_r + 7] = r7;
        code = {W("mov(MemR7Imm16,Ax)", {-1, 1}), (uint16_t)(a - r7)};
        break;
    }
    case RGuestSp:
        st[flat::F_sp] = a;
        code = {W("mov_memsp_to(Register)", {1})};
        break;
    default:
        return false;
    }
    if (!w.guest(code, st, &after))
        return false;
    got = (reader == RGuestImm16 || reader == RGuestR7Imm16) ? (uint16_t)after[flat::F_a + 1] : (uint16_t)after[flat::F_r + 1];
    return true;
}

vf::Result check(const Case& cs) {
    Sys& s = sys(cs.user_memory);
    s.t->Reset();
    World w(s);
    std::string trace = cs.user_memory ? "user memory; " : "own memory; ";
    bool nontrivial = false;
    auto fail = [&](const std::string& sig, const std::string& what) { return vf::Result::fail(sig, what + " (" + trace + ")"); };
    for (size_t i = 0; i < cs.ops.size(); ++i) {
        const Op& op = cs.ops[i];
        // configuration for this step
        if (op.z != w.z) {
            s.t->MMIOWrite(0x112, op.z & 1);
            w.z = op.z & 1;
        }
        if (op.base != w.base) {
            // move the window: through the host accessor, or (half of the time) through the DSP path, i.e. by a data write to the
            // window-base register inside the window it is about to move -- which must not land in the memory underneath either
            uint32_t a32 = (uint32_t)w.base + 0x11E;
            if ((op.value & 1) && a32 <= 0xFFFF && w.z == 0) { // (bank 1 + DSP path is a deliberate assertion of the MIU model)
                uint16_t a = (uint16_t)a32;
                uint16_t under = w.mget(w.data_word(a));
                auto o = s.guarded([&] { s.t->DataWrite(a, op.base, false); });
                if (o.kind != 0)
                    return fail("C11:mmio:outcome", "DSP-path write to the window-base register ended with " + o.what);
                if (s.t->DataRead(a, true) != under)
                    return fail("C11:mmio:memory-touched:relocation", "moving the MMIO window from " + vf::hex(w.base) + " to " + vf::hex(op.base) +
                                                                          " by a DSP-path write changed the memory underneath " + vf::hex(a));
                vf::klass("MMIO window moved through the DSP path");
            } else {
                s.t->MMIOWrite(0x11E, op.base);
            }
            w.base = op.base;
        }
        // ---- MMIO clause -----------------------------------------------------------------------------------
        if (op.reg != 0xFFFF && w.z == 0) {
            uint16_t off = kPlainRegs[op.reg % (sizeof kPlainRegs / sizeof kPlainRegs[0])];
            uint32_t a32 = (uint32_t)w.base + off;
            if (a32 <= 0xFFFF) {
                uint16_t a = (uint16_t)a32;
                uint16_t under = w.mget(w.data_word(a));
                trace += "mmio[" + vf::hex(off) + "@" + vf::hex(a) + "]=" + vf::hex(op.value) + " ";
                auto o = s.guarded([&] { s.t->DataWrite(a, op.value, false); });
                if (o.kind != 0)
                    return fail("C11:mmio:outcome", "DSP-path write inside the MMIO window ended with " + o.what);
                if (s.t->MMIORead(off) != op.value)
                    return fail("C11:mmio:not-register", "a DSP-path write to " + vf::hex(a) + " (window base " + vf::hex(w.base) + ") did not reach register " + vf::hex(off));
                if (s.t->DataRead(a, false) != op.value)
                    return fail("C11:mmio:read", "a DSP-path read of " + vf::hex(a) + " did not return register " + vf::hex(off));
                if (s.t->DataRead(a, true) != under)
                    return fail("C11:mmio:memory-touched", "a DSP-path write inside the MMIO window changed the memory underneath " + vf::hex(a));
                // bypass reaches the memory, not the register
                uint16_t mv = (uint16_t)(op.value ^ 0x5A5A);
                s.t->DataWrite(a, mv, true);
                w.mput(w.data_word(a), mv);
                if (s.t->MMIORead(off) != op.value)
                    return fail("C11:mmio:bypass-hit-register", "a bypassing write to " + vf::hex(a) + " changed register " + vf::hex(off));
                // guest load through [r3] sees the register, not the memory
                flat::State st = plain_state(), after;
                st[flat::F_r + 3] = a;
                if (w.guest({W("mov(Rn,StepValue#4,Register)", {3, 0, 1})}, st, &after) && (uint16_t)after[flat::F_r + 1] != op.value)
                    return fail("C11:mmio:guest", "a guest load from " + vf::hex(a) + " did not return register " + vf::hex(off));
                vf::klass(w.base == 0x8000 ? "MMIO clause at the default base" : "MMIO clause at a relocated base");
                nontrivial = true;
                if ((op.value & 3) == 0) {
                    // the window is a property of the data address, whatever the MIU's paging configuration maps that address to:
                    // with paging mode 1 and generated X / Y pages a DSP-path access still reaches the register and no memory cell
                    const uint16_t xp = (op.value >> 2) & 1, yp = (op.value >> 3) & 1, v2 = (uint16_t)(op.value ^ 0x0FF0);
                    const uint64_t d0 = s.memory_digest();
                    s.t->MMIOWrite(0x10E, xp);
                    s.t->MMIOWrite(0x110, yp);
                    s.t->MMIOWrite(0x11A, 0x0040);
                    auto o2 = s.guarded([&] { s.t->DataWrite(a, v2, false); });
                    uint16_t reg_now = s.t->MMIORead(off);
                    uint16_t rd = 0;
                    auto o3 = s.guarded([&] { rd = s.t->DataRead(a, false); });
                    const uint64_t d1 = s.memory_digest();
                    s.t->MMIOWrite(0x11A, 0);
                    s.t->MMIOWrite(0x10E, 0);
                    s.t->MMIOWrite(0x110, 0);
                    s.t->MMIOWrite(off, op.value);
                    const std::string cfg = " (paging mode 1, X page " + std::to_string(xp) + ", Y page " + std::to_string(yp) + ")";
                    if (o2.kind != 0 || o3.kind != 0)
                        return fail("C11:mmio:paged:outcome", "DSP-path access inside the MMIO window ended with " + (o2.kind ? o2.what : o3.what) + cfg);
                    if (reg_now != v2 || rd != v2)
                        return fail("C11:mmio:paged:not-register", "a DSP-path write / read of " + vf::hex(a) + " did not reach register " + vf::hex(off) + cfg);
                    if (d0 != d1)
                        return fail("C11:mmio:paged:memory-touched", "a DSP-path write inside the MMIO window changed memory" + cfg);
                    vf::klass("MMIO clause under paging mode 1");
                }
            }
        }
        // window edges: addresses just outside the window are plain memory
        // ---- write + all readers -------------------------------------------------------------------------------
        std::string how = kWriterName[op.writer];
        long word = do_write(w, op, how);
        if (word < 0) {
            vf::klass("writer not applicable here (address inside the MMIO window / scratch code page)");
        } else {
            trace += how + "[" + vf::hex((uint32_t)word) + "]=" + vf::hex(op.value) + (w.z ? " z1" : "") + " ";
            for (int r = 0; r < NREADER; ++r) {
                uint16_t got = 0;
                if (!do_read(w, r, (uint32_t)word, got))
                    continue;
                if (got != w.mget((uint32_t)word))
                    return fail(std::string("C11:view:") + kWriterName[op.writer] + "->" + kReaderName[r],
                                std::string("written through ") + kWriterName[op.writer] + ", cell " + vf::hex((uint32_t)word) + " reads " + vf::hex(got) + " through " +
                                    kReaderName[r] + " instead of " + vf::hex(w.mget((uint32_t)word)));
                vf::klass(std::string(kWriterName[op.writer]) + " -> " + kReaderName[r]);
            }
            if (op.value != 0)
                nontrivial = true;
            uint16_t a = (uint16_t)(word - 0x20000);
            if (word >= 0x20000 && w.z == 0 && (a == (uint16_t)(w.base - 1) || a == (uint16_t)(w.base + 0x800)))
                vf::klass("cell adjacent to the MMIO window");
        }
        if (std::memcmp(s.t->GetDspMemory(), w.model.data(), w.model.size()) != 0) {
            const uint8_t* mem = s.t->GetDspMemory();
            size_t k = 0;
            while (mem[k] == w.model[k])
                ++k;
            return fail(std::string("C11:stray:") + kWriterName[op.writer],
                        "after the step, byte " + vf::hex(k) + " (word " + vf::hex(k / 2) + ") of the shared memory is " + vf::hex(mem[k]) + " but the model says " +
                            vf::hex(w.model[k]) + ": some other cell moved");
        }
    }
    vf::note(vf::hash_str(encode(cs)), nontrivial);
    if (nontrivial && cs.ops.size() <= 3)
        vf::sample(trace);
    return vf::Result::pass();
}

rc::Gen<Op> genOp() {
    using namespace rc;
    return gen::map(gen::tuple(gen::resize(100, gen::arbitrary<uint64_t>())), [](std::tuple<uint64_t> t) {
        vf::Stream s(std::get<0>(t));
        Op op;
        op.writer = (int)s.below(NWRITER);
        static const uint16_t bases[] = {0x8000, 0x8000, 0x8000, 0x0000, 0xF800, 0xFFFF, 0xFC00, 0x8400, 0x8200, 0x7FFF, 0x0801};
        op.base = s.chance(1, 6) ? (uint16_t)s.bits(16) : bases[s.below(sizeof bases / sizeof bases[0])];
        op.z = (uint16_t)(s.chance(1, 4) ? 1 : 0);
        bool program = op.writer == WRaw || op.writer == WProg || op.writer == WGuestMovd;
        if (program) {
            static const uint32_t edges[] = {0, 1, 0xFFFF, 0x10000, 0x1FFFF, 0x20000, 0x2FFFF, 0x30000, 0x3FFFF, 0x3FEFF};
            op.addr = s.chance(1, 4) ? edges[s.below(sizeof edges / sizeof edges[0])] : (uint32_t)s.below(0x40000);
        } else if (op.writer == WA32) {
            op.addr = (uint32_t)s.below(0x40000);
        } else {
            switch (s.below(6)) {
            case 0:
                op.addr = (uint16_t)(op.base - 1 + s.below(3)); // base-1, base, base+1
                break;
            case 1:
                op.addr = (uint16_t)(op.base + 0x7FE + s.below(4)); // ... base+0x800
                break;
            case 2:
                op.addr = (uint16_t)s.below(0x400); // low addresses (a wrapped window would swallow them)
                break;
            case 3:
                op.addr = (uint16_t)(0xFFF0 + s.below(16));
                break;
            default:
                op.addr = (uint16_t)s.bits(16);
                break;
            }
        }
        op.value = icase::gen_u16(s);
        op.reg = s.chance(1, 4) ? (uint16_t)s.below(64) : 0xFFFF;
        return op;
    });
}

} // namespace

int main(int argc, char** argv) {
    vf::init(argc, argv, "C11");
    vf::Property<Case> p;
    p.name = "memory_views";
    p.gen = [] {
        using namespace rc;
        return gen::map(gen::pair(gen::arbitrary<bool>(), gen::container<std::vector<Op>>(genOp())), [](std::pair<bool, std::vector<Op>> t) {
            Case c;
            c.user_memory = t.first;
            c.ops = t.second;
            return c;
        });
    };
    p.check = check;
    p.encode = encode;
    p.decode = decode;
    p.max_size = 24;
    vf::run(p);
    return vf::finish();
}
