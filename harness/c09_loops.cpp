// C09 -- hardware loops execute their body exactly count+1 times.
//  unroll   metamorphic: a generated program with rep / bkrep loops (nesting up to four block levels, counts from an
//           immediate or a register, two-word last instructions) ends in the same registers and memory as the program
//           the harness unrolled (body repeated count+1 times); loop state is clear afterwards
//  counter  a body that stores lc (block repeat) / repc (single-instruction repeat) every iteration leaves the sequence
//           N, N-1, ..., 0 in memory
//  frame    bkrepsto ; bkreprst of the same address is the identity on bcn, lp, every frame and the pointer
#include <map>

#include "icase.h"
#include "optable.h"
#include "vf.h"

namespace {

using flat::State;
using icase::ICase;

icase::Machine& sut() {
    static icase::Machine* m = new icase::Machine(ICASE_FNS(sut_));
    return *m;
}
uint16_t W(const std::string& form, const std::vector<long>& v) {
    static std::map<std::string, int> cache;
    std::string key = form;
    for (long x : v)
        key += "," + std::to_string(x);
    auto it = cache.find(key);
    if (it == cache.end()) {
        it = cache.emplace(key, optable::find_word(form, v)).first;
        if (it->second < 0)
            vf::add_note("inconclusive: instruction form not found: " + key);
    }
    return (uint16_t)(it->second < 0 ? 0 : it->second);
}

// ---- program AST ---------------------------------------------------------------------------------------------------------
struct Item {
    enum Kind { Instr, Rep, Bkrep, SaveRestore } kind = Instr; // SaveRestore: every active loop frame saved to the stack and restored
    std::vector<uint16_t> words; // Instr: the instruction; Rep: the single repeated one-word instruction
    unsigned count = 0;          // loops: N (body runs N+1 times)
    unsigned source = 0;         // 0 immediate, 1 register (via `Register` operand), 2 r6
    std::vector<Item> body;      // Bkrep
};

const int kRegR5 = 5;   // Register operand code of r5 (count register for register-sourced loops)
const int kRegA0l = 26, kRegLc = 30;

// straight-line, loop-agnostic instructions
std::vector<uint16_t> safe_instr(vf::Stream& s, bool one_word_only) {
    switch (s.below(one_word_only ? 4 : 7)) {
    case 0:
        return {W("moda4(ModaOp#16,Ax,CondValue)", {13, 0, 0})}; // inc a0
    case 1:
        return {W("moda4(ModaOp#16,Ax,CondValue)", {13, 1, 0})}; // inc a1
    case 2:
        return {W("mov(Register,Rn,StepValue#4)", {kRegA0l, 0, 1})}; // mov a0l, [r0]+
    case 3:
        return {W("moda4(ModaOp#16,Ax,CondValue)", {2, 0, 0})}; // shl a0
    case 4:
        return {W("alu(AlmOp#8,Imm16,Ax)", {3, -1, 0}), (uint16_t)(1 + s.below(1000))}; // add #imm16, a0
    case 5:
        return {W("alu(AlmOp#8,Imm16,Ax)", {2, -1, 1}), icase::gen_u16(s)}; // xor #imm16, a1
    default:
        return {W("alu(AlmOp#8,Imm16,Ax)", {3, -1, 1}), (uint16_t)(1 + s.below(1000))}; // add #imm16, a1
    }
}

unsigned gen_count(vf::Stream& s, unsigned cap) {
    unsigned n;
    switch (s.below(6)) {
    case 0:
    case 1:
    case 2:
        n = (unsigned)s.below(41); // all small values
        break;
    case 3:
        n = (unsigned[]){0, 1, 255, 256, 0x7FFF, 0xFFFF}[s.below(6)];
        break;
    default:
        n = (unsigned)s.below(0x10000);
        break;
    }
    if (cap < 0xFFFF && n > cap)
        n = n % (cap + 1);
    return n;
}

// total dynamic instruction count of a block when unrolled
uint64_t dyn_count(const std::vector<Item>& b) {
    uint64_t n = 0;
    for (auto& it : b) {
        if (it.kind == Item::Instr)
            n += 1;
        else if (it.kind == Item::SaveRestore)
            n += 8;
        else if (it.kind == Item::Rep)
            n += (uint64_t)it.count + 1;
        else
            n += ((uint64_t)it.count + 1) * dyn_count(it.body);
    }
    return n;
}

std::vector<Item> gen_block(vf::Stream& s, unsigned depth, uint64_t budget, bool top) {
    std::vector<Item> b;
    unsigned len = 1 + (unsigned)s.below(top ? 4 : 5);
    for (unsigned i = 0; i < len; ++i) {
        unsigned r = (unsigned)s.below(10);
        bool last = i + 1 == len;
        if (r == 9 && depth >= 1 && !last && s.chance(1, 2)) {
            // bkrepsto [sp] for every active frame, then bkreprst [sp] for each: the identity on the loop state (what an
            // interrupt routine that uses block repeats itself does); never the last item of a block
            Item it;
            it.kind = Item::SaveRestore;
            b.push_back(it);
        } else if (r < 2 && depth < 4 && budget >= 4 && !(last && !top)) {
            // nested block repeat; it must not be the last item of an enclosing block (two loops may not end together)
            Item it;
            it.kind = Item::Bkrep;
            uint64_t inner_budget = budget / 4 + 1;
            it.body = gen_block(s, depth + 1, inner_budget, false);
            uint64_t per = dyn_count(it.body);
            unsigned cap = (unsigned)std::min<uint64_t>(0xFFFF, per ? budget / per : 0);
            it.source = (unsigned)s.below(3);
            it.count = gen_count(s, cap ? cap - 1 : 0);
            if (it.source == 0)
                it.count &= 0xFF;
            b.push_back(it);
        } else if (r < 4) { // incl. as the last item of a block: the repeated instruction is then the block's last instruction
            Item it;
            it.kind = Item::Rep;
            it.words = safe_instr(s, true);
            it.source = (unsigned)s.below(3);
            unsigned cap = (unsigned)std::min<uint64_t>(0xFFFF, budget);
            it.count = gen_count(s, cap ? cap - 1 : 0);
            if (it.source == 0)
                it.count &= 0xFF;
            b.push_back(it);
        } else {
            Item it;
            it.words = safe_instr(s, false);
            b.push_back(it);
        }
    }
    return b;
}

// code generation. `looped`: emit loop instructions; otherwise unroll
void emit(const std::vector<Item>& b, bool looped, uint32_t base, std::vector<uint16_t>& out, uint64_t& instr, unsigned depth = 0) {
    for (auto& it : b) {
        if (it.kind == Item::Instr) {
            out.insert(out.end(), it.words.begin(), it.words.end());
            ++instr;
        } else if (it.kind == Item::SaveRestore) {
            if (looped) { // (the unrolled program has no loop state to save)
                for (unsigned k = 0; k < depth; ++k)
                    out.push_back(W("bkrepsto_memsp()", {}));
                for (unsigned k = 0; k < depth; ++k)
                    out.push_back(W("bkreprst_memsp()", {}));
                instr += 2 * depth;
            }
        } else if (it.kind == Item::Rep) {
            if (looped) {
                if (it.source != 0) { // load the count register first
                    out.push_back(it.source == 1 ? W("mov(Imm16,Register)", {-1, kRegR5}) : W("mov_r6(Imm16)", {-1}));
                    out.push_back((uint16_t)it.count);
                    ++instr;
                }
                out.push_back(it.source == 0 ? W("rep(Imm8)", {(long)it.count}) : (it.source == 1 ? W("rep(Register)", {kRegR5}) : W("rep_r6()", {})));
                out.push_back(it.words[0]);
                instr += 1 + (uint64_t)it.count + 1;
            } else {
                if (it.source != 0) {
                    out.push_back(it.source == 1 ? W("mov(Imm16,Register)", {-1, kRegR5}) : W("mov_r6(Imm16)", {-1}));
                    out.push_back((uint16_t)it.count);
                    ++instr;
                }
                for (uint64_t k = 0; k <= it.count; ++k)
                    out.push_back(it.words[0]);
                instr += (uint64_t)it.count + 1;
            }
        } else {
            if (it.source != 0) {
                out.push_back(it.source == 1 ? W("mov(Imm16,Register)", {-1, kRegR5}) : W("mov_r6(Imm16)", {-1}));
                out.push_back((uint16_t)it.count);
                ++instr;
            }
            if (looped) {
                // body first into a scratch buffer to learn its length
                std::vector<uint16_t> body;
                uint64_t once = 0;
                uint32_t body_base = base + (uint32_t)out.size() + 2;
                emit(it.body, true, body_base, body, once, depth + 1);
                uint32_t end = body_base + (uint32_t)body.size() - 1; // address of the last word of the last instruction
                if (it.source == 0) {
                    out.push_back(W("bkrep(Imm8,Address16)", {(long)it.count, -1}));
                    out.push_back((uint16_t)end);
                } else if (it.source == 1) {
                    out.push_back(W("bkrep(Register,Address18_16,Address18_2)", {kRegR5, -1, (long)(end >> 16)}));
                    out.push_back((uint16_t)end);
                } else {
                    out.push_back(W("bkrep_r6(Address18_16,Address18_2)", {-1, (long)(end >> 16)}));
                    out.push_back((uint16_t)end);
                }
                out.insert(out.end(), body.begin(), body.end());
                instr += 1 + ((uint64_t)it.count + 1) * once;
            } else {
                for (uint64_t k = 0; k <= it.count; ++k) {
                    uint64_t once = 0;
                    emit(it.body, false, base, out, once, depth + 1);
                    instr += once;
                }
            }
        }
    }
}

void describe(const std::vector<Item>& b, std::string& o, unsigned& depth, unsigned d = 0) {
    depth = std::max(depth, d);
    for (auto& it : b) {
        if (it.kind == Item::Instr)
            o += it.words.size() == 2 ? "I2 " : "I ";
        else if (it.kind == Item::SaveRestore)
            o += "saverestore ";
        else if (it.kind == Item::Rep)
            o += "rep" + std::to_string(it.count) + (it.source ? "r " : " ");
        else {
            o += "bkrep" + std::to_string(it.count) + (it.source ? "r{ " : "{ ");
            describe(it.body, o, depth, d + 1);
            o += "} ";
        }
    }
}

State program_state(vf::Stream& s) {
    State st = flat::reset_state();
    st[flat::F_pc] = 0x1000;
    st[flat::F_a + 0] = flat::sext40(s.bits(32));
    st[flat::F_a + 1] = flat::sext40(s.bits(32));
    st[flat::F_r + 0] = 0x3000; // store pointers
    st[flat::F_r + 1] = 0x5000;
    st[flat::F_r + 2] = 0x7000;
    st[flat::F_sata] = s.bits(1);
    st[flat::F_sp] = 0x2F00;
    return st;
}

// ---- unroll ------------------------------------------------------------------------------------------------------------
struct Prog {
    uint64_t seed = 0;
    unsigned big = 0; // 1: a single loop with a large count and a tiny body
};
std::string enc_prog(const Prog& p) {
    return "prog " + vf::hex(p.seed) + " " + vf::hex(p.big) + "\n";
}
Prog dec_prog(const std::string& t) {
    Prog p;
    auto ls = vf::lines(t);
    auto v = vf::split_ws(ls.empty() ? "" : ls[0]);
    if (v.size() >= 3) {
        p.seed = vf::unhex(v[1]);
        p.big = (unsigned)vf::unhex(v[2]);
    }
    return p;
}

vf::Result check_unroll(const Prog& p) {
    vf::Stream s(p.seed);
    std::vector<Item> prog;
    if (p.big) {
        Item it;
        bool rep = s.bits(1);
        it.kind = rep ? Item::Rep : Item::Bkrep;
        it.source = 1 + (unsigned)s.below(2);
        it.count = (unsigned[]){255, 256, 0x7FFF, 0xFFFF, 1000, 4095, 4096}[s.below(7)];
        if (rep)
            it.words = safe_instr(s, true);
        else {
            Item a;
            a.words = safe_instr(s, true);
            it.body = {a};
        }
        Item tail;
        tail.words = safe_instr(s, false);
        prog = {it, tail};
    } else {
        prog = gen_block(s, 0, 4096, true);
    }
    vf::Stream sq(vf::mix64(p.seed ^ 0x1A7E));
    const bool irq_variant = !p.big && sq.chance(1, 8);
    if (irq_variant) { // the program starts with a single-instruction repeat
        Item it;
        it.kind = Item::Rep;
        it.words = safe_instr(sq, true);
        it.source = (unsigned)sq.below(3);
        it.count = 1 + (unsigned)sq.below(30);
        prog.insert(prog.begin(), it);
    }
    // where the program lives: mostly page 0, otherwise high in program page 2 or 3 (which overlays data words 0xA000.. that the
    // bodies never touch), so that the loop frames carry all 18 address bits
    vf::Stream sb(vf::mix64(p.seed ^ 0xBA5E));
    uint32_t base = sb.chance(2, 3) ? 0x1000 : (sb.bits(1) ? 0x2A000 : 0x3A000);
    std::vector<uint16_t> lo, un;
    uint64_t nl = 0, nu = 0;
    emit(prog, false, base, un, nu);
    if (base != 0x1000 && un.size() > 0x5000) {
        base = 0x1000;
        un.clear();
        nu = 0;
        emit(prog, false, base, un, nu);
    }
    emit(prog, true, base, lo, nl);
    std::string desc;
    unsigned depth = 0;
    describe(prog, desc, depth);
    if (lo.size() < 1 || un.size() > 0x1E000 || nl > 400000) {
        vf::note(0, false);
        return vf::Result::pass();
    }
    State st = program_state(s);
    st[flat::F_pc] = base;
    // one case in eight (program starting with a repeat): an enabled interrupt request is already latched when the program starts.
    // It is taken once the repeat has finished, not between `rep` and the instruction it repeats; its service routine just returns,
    // so the looped and the unrolled program still end in the same state (one more instruction each: the reti)
    const bool with_irq = irq_variant;
    if (with_irq) {
        st[flat::F_ie] = 1;
        st[flat::F_im + 0] = 1;
    }
    if (base != 0x1000) {
        desc += "@" + vf::hex(base) + " ";
        vf::klass("program in page " + std::to_string(base >> 16));
    }
    auto run = [&](const std::vector<uint16_t>& code, uint64_t cycles) {
        ICase c;
        c.st = st;
        c.opcode = code[0];
        c.expansion = code.size() > 1 ? code[1] : 0;
        c.more_code.assign(code.begin() + std::min<size_t>(2, code.size()), code.end());
        c.cycles = (unsigned)cycles + (with_irq ? 1 : 0);
        if (with_irq) {
            c.irq_mask = 1; // int0 requested before the first cycle
            c.pokes.push_back({0x0006, W("reti(CondValue)", {0})});
        }
        return sut().exec(c);
    };
    icase::IResult rl = run(lo, nl), ru = run(un, nu);
    if (rl.outcome != 0 || ru.outcome != 0)
        return vf::Result::fail("C09:unroll:outcome", "program did not complete: looped '" + rl.what + "' unrolled '" + ru.what + "' for " + desc);
    if (rl.after[flat::F_pc] != base + lo.size())
        return vf::Result::fail("C09:unroll:pc", "after " + std::to_string(nl) + " instructions the looped program is at " + vf::hex(rl.after[flat::F_pc]) +
                                                     " instead of its end " + vf::hex(base + lo.size()) + " (body ran a wrong number of times) for " + desc);
    if (ru.after[flat::F_pc] != base + un.size())
        return vf::Result::fail("C09:unroll:harness", "unrolled program did not reach its end (harness error) for " + desc);
    // loop state clear
    if (rl.after[flat::F_lp] != 0 || rl.after[flat::F_bcn] != 0 || rl.after[flat::F_rep] != 0)
        return vf::Result::fail("C09:unroll:loopstate", "in-loop state not clear after the loops: lp=" + vf::hex(rl.after[flat::F_lp]) + " bcn=" +
                                                            vf::hex(rl.after[flat::F_bcn]) + " rep=" + vf::hex(rl.after[flat::F_rep]) + " for " + desc);
    State a = rl.after, b = ru.after;
    a[flat::F_pc] = b[flat::F_pc] = 0;
    // documented residue of the loop machinery itself: frames and counters (checked separately by `counter`)
    for (int i = 0; i < 4; ++i)
        a[flat::F_bk_start + i] = b[flat::F_bk_start + i] = a[flat::F_bk_end + i] = b[flat::F_bk_end + i] = a[flat::F_bk_lc + i] = b[flat::F_bk_lc + i] = 0;
    a[flat::F_repc] = b[flat::F_repc] = 0;
    if (!(a == b))
        return vf::Result::fail("C09:unroll:state", "looped and unrolled programs end in different registers (looped vs unrolled) " + flat::diff(a, b) + " for " + desc);
    if (with_irq) {
        vf::klass("interrupt request latched when the leading repeat starts");
        for (uint32_t a = 0x2F00 - 16; a < 0x2F00; ++a) { // the return address on the stack differs by construction
            rl.writes.erase(0x20000 + a);
            ru.writes.erase(0x20000 + a);
        }
        rl.writes.erase(0x0006);
        ru.writes.erase(0x0006);
    }
    if (desc.find("saverestore") != std::string::npos) {
        // the saved frames lie in the 16 words below the stack pointer: scratch, not part of the comparison
        vf::klass("loop frames saved and restored inside nested blocks");
        for (uint32_t a = 0x2F00 - 16; a < 0x2F00; ++a) {
            rl.writes.erase(0x20000 + a);
            ru.writes.erase(0x20000 + a);
        }
    }
    if (rl.writes != ru.writes)
        return vf::Result::fail("C09:unroll:memory", "looped and unrolled programs leave different memory (" + std::to_string(rl.writes.size()) + " vs " +
                                                         std::to_string(ru.writes.size()) + " cells written) for " + desc);
    if (rl.after[flat::F_repc] != 0 && desc.find("rep") != std::string::npos && desc.find("bkrep") == std::string::npos)
        return vf::Result::fail("C09:unroll:repc", "repeat counter is " + vf::hex(rl.after[flat::F_repc]) + " after the repeat finished for " + desc);
    bool nontrivial = nu > lo.size();
    vf::klass("nesting depth " + std::to_string(depth));
    if (p.big)
        vf::klass("large count (>= 255) with a tiny body");
    if (desc.find("I2 }") != std::string::npos)
        vf::klass("two-word last instruction in a block");
    for (size_t at = desc.find("} "); at != std::string::npos; at = desc.find("} ", at + 1)) {
        size_t b = at >= 2 ? desc.rfind(' ', at - 2) : std::string::npos; // start of the token before "} "
        b = b == std::string::npos ? 0 : b + 1;
        if (desc.compare(b, 3, "rep") == 0) {
            vf::klass("repeated instruction is the last instruction of a block");
            break;
        }
    }
    if (desc.find("rep0 ") != std::string::npos || desc.find("bkrep0{") != std::string::npos || desc.find("rep0r") != std::string::npos ||
        desc.find("bkrep0r{") != std::string::npos)
        vf::klass("a loop with count 0");
    vf::note(vf::hash_str(enc_prog(p)), nontrivial);
    if (nontrivial && desc.size() < 60)
        vf::sample(desc + "(" + std::to_string(nl) + " instructions looped, " + std::to_string(un.size()) + " words unrolled)");
    return vf::Result::pass();
}

// ---- counter -----------------------------------------------------------------------------------------------------------
struct Cnt {
    unsigned kind = 0; // 0 bkrep, 1 rep
    unsigned n = 0, source = 0, extra = 0;
};
std::string enc_cnt(const Cnt& c) {
    return "cnt " + vf::hex(c.kind) + " " + vf::hex(c.n) + " " + vf::hex(c.source) + " " + vf::hex(c.extra) + "\n";
}
Cnt dec_cnt(const std::string& t) {
    Cnt c;
    auto ls = vf::lines(t);
    auto v = vf::split_ws(ls.empty() ? "" : ls[0]);
    if (v.size() >= 5) {
        c.kind = (unsigned)vf::unhex(v[1]);
        c.n = (unsigned)vf::unhex(v[2]);
        c.source = (unsigned)vf::unhex(v[3]);
        c.extra = (unsigned)vf::unhex(v[4]);
    }
    return c;
}

vf::Result check_counter(const Cnt& cc) {
    unsigned n = cc.source == 0 ? (cc.n & 0xFF) : (cc.n & 0xFFFF);
    // block repeats only: 0..3 enclosing two-pass block repeats, so that the counter is read at nesting depth 1..4
    const unsigned outer = cc.kind == 0 ? (cc.extra / 18) % 4 : 0;
    if (outer)
        n %= 301;
    std::vector<uint16_t> code;
    uint64_t instr = 0;
    State st = flat::reset_state();
    // the program sits in page 0, or (short sequences only: the store pointer must not reach it) high in page 2 / 3
    const uint32_t cbase = ((cc.extra / 3) % 3 == 2 && n < 0x2000) ? (((cc.extra / 9) & 1) ? 0x3A000 : 0x2A000) : 0x1000;
    st[flat::F_pc] = cbase;
    st[flat::F_r + 1] = 0x5000;
    st[flat::F_r + 2] = 0x7000;
    if (cbase != 0x1000)
        vf::klass("counter program in page " + std::to_string(cbase >> 16));
    // count sources: 0 immediate, 1 r5 (loaded by the program), 2 r6, 3 / 4 the low / high half of b0, preset to a value whose
    // extension bits are (mostly) not a sign extension: a count register is read as its plain 16 bits
    long count_reg = kRegR5;
    if (cc.source == 1 || cc.source == 2) {
        code.push_back(cc.source == 1 ? W("mov(Imm16,Register)", {-1, kRegR5}) : W("mov_r6(Imm16)", {-1}));
        code.push_back((uint16_t)n);
        ++instr;
    } else if (cc.source >= 3) {
        uint64_t other = vf::mix64(cc.n * 977 + cc.extra) & 0xFFFF, ext = (vf::mix64(cc.extra * 31 + cc.n) >> 8) & 0xFF;
        uint64_t lo = cc.source == 3 ? n : other, hi = cc.source == 3 ? other : n;
        st[flat::F_b + 0] = flat::sext40((ext << 32) | (hi << 16) | lo);
        count_reg = cc.source == 3 ? 18 : 16; // Register operand codes of b0l / b0h
        vf::klass(std::string("count from an accumulator half, accumulator ") + (st[flat::F_b + 0] == (uint64_t)(int64_t)(int32_t)(uint32_t)st[flat::F_b + 0] ? "fits" : "exceeds") +
                  " 32 bits");
    }
    uint32_t store_base;
    if (cc.kind == 0) {
        // bkrep N { mov lc, [r1]+ ; (1 + extra) x inc a0 }   -- the store is not the last instruction of the block
        uint32_t body_base = cbase + (uint32_t)code.size() + 2 + 2 * outer;
        unsigned extra = 1 + cc.extra % 3;
        uint32_t end = body_base + extra; // last word = the last inc
        for (unsigned j = outer; j >= 1; --j) { // enclosing loops, outermost first; level j ends on its own "inc a1" at end + j
            code.push_back(W("bkrep(Imm8,Address16)", {1, -1}));
            code.push_back((uint16_t)(end + j));
        }
        if (cc.source == 0) {
            code.push_back(W("bkrep(Imm8,Address16)", {(long)n, -1}));
        } else if (cc.source == 2) {
            code.push_back(W("bkrep_r6(Address18_16,Address18_2)", {-1, (long)(end >> 16)}));
        } else {
            code.push_back(W("bkrep(Register,Address18_16,Address18_2)", {count_reg, -1, (long)(end >> 16)}));
        }
        code.push_back((uint16_t)end);
        code.push_back(W("mov(Register,Rn,StepValue#4)", {kRegLc, 1, 1}));
        for (unsigned k = 0; k < extra; ++k)
            code.push_back(W("moda4(ModaOp#16,Ax,CondValue)", {13, 0, 0}));
        for (unsigned j = 0; j < outer; ++j)
            code.push_back(W("moda4(ModaOp#16,Ax,CondValue)", {13, 1, 0})); // inc a1: the last instruction of enclosing level j + 1
        uint64_t level = 1 + ((uint64_t)n + 1) * (extra + 1);
        for (unsigned j = 0; j < outer; ++j)
            level = 1 + 2 * (level + 1);
        instr += level;
        store_base = 0x20000 + 0x5000;
    } else {
        // rep N ; mov repc, [r2]+    (through ar0: arrn0 = r2, step +1)
        st[flat::F_arrn + 0] = 2;
        st[flat::F_arstep + 0] = 1;
        st[flat::F_aroffset + 0] = 0;
        code.push_back(cc.source == 0 ? W("rep(Imm8)", {(long)n}) : (cc.source == 2 ? W("rep_r6()", {}) : W("rep(Register)", {count_reg})));
        code.push_back(W("mov_repc_to(ArRn1,ArStep1)", {0, 0}));
        instr += 1 + (uint64_t)n + 1;
        store_base = 0x20000 + 0x7000;
    }
    code.push_back(0x0000);
    ICase c;
    c.st = st;
    c.opcode = code[0];
    c.expansion = code[1];
    c.more_code.assign(code.begin() + 2, code.end());
    c.cycles = (unsigned)instr;
    icase::IResult r = sut().exec(c);
    std::string what = std::string(cc.kind ? "rep" : "bkrep") + " count " + std::to_string(n) + " source " + std::to_string(cc.source) +
                       (outer ? " inside " + std::to_string(outer) + " enclosing block repeat(s)" : "");
    const uint64_t total = ((uint64_t)n + 1) << outer; // iterations of the counting loop over the whole run
    if (r.outcome != 0)
        return vf::Result::fail("C09:counter:outcome", "did not complete (" + r.what + ") for " + what);
    // the store pointer wraps in the 16-bit data space; data address 0xFFFF is the MMIO cell of this core (not memory)
    uint16_t base16 = (uint16_t)(store_base - 0x20000);
    bool hits_mmio = (uint64_t)base16 + total - 1 >= 0xFFFF;
    if (r.writes.size() != (size_t)total - (hits_mmio ? 1 : 0))
        return vf::Result::fail(std::string("C09:counter:iterations:") + (cc.kind ? "rep" : "bkrep"), "the body ran " + std::to_string(r.writes.size()) +
                                                                                                        " times instead of " + std::to_string(total) + " for " + what);
    // the counter counts down once per iteration and ends at 0; whether an iteration sees the value before or after
    // that iteration's decrement depends on where in the body it is read, so both phases are accepted
    unsigned prev = 0;
    for (uint64_t kk = 0; kk < total; ++kk) {
        unsigned k = (unsigned)(kk % ((uint64_t)n + 1)); // iteration within this run of the counting loop
        if (k == 0 && kk != 0 && prev != 0)
            return vf::Result::fail("C09:counter:final:bkrep", "a run of the counting loop ended with counter " + vf::hex(prev) + " instead of 0 for " + what);
        uint16_t a16 = (uint16_t)(base16 + kk);
        if (a16 == 0xFFFF) {
            prev = k == 0 ? n : (prev ? prev - 1 : 0);
            continue;
        }
        auto it = r.writes.find(0x20000u + a16);
        if (it == r.writes.end())
            return vf::Result::fail(std::string("C09:counter:sequence:") + (cc.kind ? "rep" : "bkrep"), "iteration " + std::to_string(k) + " stored nothing for " + what);
        unsigned v = it->second;
        bool ok = k == 0 ? (v == n || v == (n ? n - 1 : 0)) : (v == (prev ? prev - 1 : 0));
        if (!ok)
            return vf::Result::fail(std::string("C09:counter:sequence:") + (cc.kind ? "rep" : "bkrep"),
                                    "iteration " + std::to_string(k) + " saw counter " + vf::hex(v) + " after " + vf::hex(prev) + " (count " + vf::hex(n) + ") for " + what);
        prev = v;
    }
    if (prev != 0)
        return vf::Result::fail(std::string("C09:counter:final:") + (cc.kind ? "rep" : "bkrep"), "the last iteration saw counter " + vf::hex(prev) + " instead of 0 for " + what);
    if (r.after[flat::F_lp] || r.after[flat::F_bcn] || r.after[flat::F_rep])
        return vf::Result::fail("C09:counter:loopstate", "in-loop state not clear after exit for " + what);
    vf::klass(std::string("counter sequence ") + (cc.kind ? "rep" : "bkrep") + (n == 0 ? " N=0" : (n >= 256 ? " N>=256" : "")));
    if (outer)
        vf::klass("counter read at nesting depth " + std::to_string(outer + 1));
    vf::note(vf::hash_str(enc_cnt(cc)), n >= 1);
    return vf::Result::pass();
}

// ---- frame round trip ---------------------------------------------------------------------------------------------------
struct Frm {
    uint64_t seed = 0;
};
vf::Result check_frame(const Frm& f) {
    vf::Stream s(f.seed);
    State st = flat::reset_state();
    st[flat::F_pc] = 0x0800;
    unsigned depth = (unsigned)s.below(5);
    st[flat::F_bcn] = depth;
    st[flat::F_lp] = depth != 0;
    for (int i = 0; i < 4; ++i) {
        st[flat::F_bk_start + i] = 0x10000 + s.below(0x2FFFF - 0x10000); // 18-bit addresses with high bits set, away from pc
        st[flat::F_bk_end + i] = 0x10000 + s.below(0x2FFFF - 0x10000);
        st[flat::F_bk_lc + i] = icase::gen_u16(s);
    }
    bool via_sp = s.bits(1);
    unsigned idx = (unsigned)s.below(4);
    uint16_t ptr = (uint16_t)(0x4000 + s.below(0x4000));
    ICase c;
    if (via_sp) {
        st[flat::F_sp] = ptr;
        c.opcode = W("bkrepsto_memsp()", {});
        c.expansion = W("bkreprst_memsp()", {});
    } else {
        unsigned rn = (unsigned)s.below(8);
        st[flat::F_arrn + idx] = rn;
        st[flat::F_r + rn] = ptr;
        // the frame pointer moves by plain +-1 whatever addressing mode its register is configured for (modulo, bit reversal)
        st[flat::F_br + rn] = s.bits(1);
        st[flat::F_m + rn] = s.bits(1);
        c.opcode = W("bkrepsto(ArRn2)", {(long)idx});
        c.expansion = W("bkreprst(ArRn2)", {(long)idx});
    }
    c.st = st;
    c.cycles = 2;
    // with at most one active frame: overwrite the visible loop counter between the save and the restore -- the restore must bring
    // the saved frame back, not rely on the registers still holding it
    bool clobber = depth <= 1 && s.bits(1);
    if (clobber) {
        uint16_t rst = c.expansion;
        c.expansion = W("mov(Imm16,Register)", {-1, kRegLc});
        c.more_code = {icase::gen_u16(s), rst};
        c.cycles = 3;
    }
    icase::IResult r = sut().exec(c);
    if (r.outcome != 0) {
        vf::note(0, false);
        return vf::Result::pass();
    }
    State want = st;
    want[flat::F_pc] = st[flat::F_pc] + (clobber ? 4 : 2);
    if (clobber)
        vf::klass("frame round trip with the counter overwritten in between");
    for (auto& wv : r.writes)
        if (wv.first < 0x20000u + (uint16_t)(ptr - 4) || wv.first > 0x20000u + (uint16_t)(ptr - 1))
            return vf::Result::fail("C09:frame:" + std::string(via_sp ? "sp" : "arrn") + ":cells", "bkrepsto with the pointer at " + vf::hex(ptr) + " wrote data word " +
                                                                                                   vf::hex(wv.first - 0x20000u) + " (the frame occupies the four words below the pointer)");
    if (!via_sp && (st[flat::F_br + st[flat::F_arrn + idx]] || st[flat::F_m + st[flat::F_arrn + idx]]))
        vf::klass("frame pointer register configured for modulo / bit-reversed addressing");
    if (!(r.after == want))
        return vf::Result::fail("C09:frame:" + std::string(via_sp ? "sp" : "arrn") + ":" + flat::diff(r.after, want).substr(0, flat::diff(r.after, want).find(':')),
                                "bkrepsto ; bkreprst with " + std::to_string(depth) + " active frame(s) is not the identity (got vs expected) " +
                                    flat::diff(r.after, want));
    vf::klass("frame round trip with " + std::to_string(depth) + " active frames");
    vf::note(vf::mix64(f.seed), depth >= 1);
    return vf::Result::pass();
}

} // namespace

int main(int argc, char** argv) {
    vf::init(argc, argv, "C09");
    using namespace rc;
    vf::Property<Prog> p;
    p.name = "loop_unroll";
    p.gen = [] {
        return gen::map(gen::pair(gen::resize(100, gen::arbitrary<uint64_t>()), gen::weightedElement<unsigned>({{30, 0}, {1, 1}})), [](std::pair<uint64_t, unsigned> t) {
            Prog pr;
            pr.seed = t.first;
            pr.big = t.second;
            return pr;
        });
    };
    p.check = check_unroll;
    p.encode = enc_prog;
    p.decode = dec_prog;
    p.share = 0.5;
    vf::run(p);

    vf::Property<Cnt> q;
    q.name = "loop_counter";
    q.gen = [] {
        auto nGen = gen::weightedOneOf<unsigned>({{6, vf::range<unsigned>(0, 41)}, {1, gen::element<unsigned>(255, 256, 0x7FFF, 0xFFFF)}, {1, vf::range<unsigned>(0, 0x10000)}});
        return gen::map(gen::tuple(vf::range<unsigned>(0, 2), nGen, vf::range<unsigned>(0, 5), vf::range<unsigned>(0, 72)), [](std::tuple<unsigned, unsigned, unsigned, unsigned> t) {
            Cnt c;
            c.kind = std::get<0>(t);
            c.n = std::get<1>(t);
            c.source = std::get<2>(t);
            c.extra = std::get<3>(t);
            return c;
        });
    };
    q.check = check_counter;
    q.encode = enc_cnt;
    q.decode = dec_cnt;
    q.share = 0.1;
    vf::run(q);

    vf::Property<Frm> f;
    f.name = "frame_roundtrip";
    f.gen = [] { return gen::map(gen::resize(100, gen::arbitrary<uint64_t>()), [](uint64_t v) { return Frm{v}; }); };
    f.check = check_frame;
    f.encode = [](const Frm& x) { return "frm " + vf::hex(x.seed) + "\n"; };
    f.decode = [](const std::string& t) {
        Frm x;
        auto ls = vf::lines(t);
        auto v = vf::split_ws(ls.empty() ? "" : ls[0]);
        if (v.size() >= 2)
            x.seed = vf::unhex(v[1]);
        return x;
    };
    f.share = 0.4;
    vf::run(f);
    return vf::finish();
}
