// C15 -- timers: counting, firing, reload, exact fast-forward.
// Histories of mode/start/pause/mirror writes, Restart, Tick, TickEvent and Skip(k <= reported horizon)
// on the real Teakra::Timer, checked after every op against (1) the cycle-exact model ref_timer.h and
// (2) a twin timer that performs k x Tick() wherever the first one performs Skip(k).
// Second property: two timers registered on one CoreTiming (as in the emulator); CoreTiming::Skip(max) must return
// min(max, both horizons) and leave both timers where that many CoreTiming::Tick() calls leave the twin pair.
#include "vf.h"
#include "ref_timer.h"

#include "core_timing.h"
#include "crash.h"
#include "timer.h"
#include "register.h"
#include "teakra/teakra.h"

namespace {

enum Kind : int { SetMode, SetStart, SetPause, SetMU, Restart, Tick, TickEvent, Skip, NKIND };
const char* kKindName[] = {"mode", "start", "pause", "mu", "restart", "tick", "event", "skip"};

struct Op {
    int kind = Tick;
    uint64_t arg = 0; // mode / start / bool / tick count / skip selector
};
using Case = std::vector<Op>;

// Skip selector -> k, given the horizon h the timer reports
uint64_t resolve_skip(uint64_t sel, uint64_t h) {
    const uint64_t INF = Teakra::CoreTiming::Callbacks::Infinity;
    uint64_t mode = sel & 7, r = sel >> 3;
    if (h == INF) {
        switch (mode) {
        case 0:
            return 0;
        case 1:
            return 1;
        case 2:
            return (1ull << 33) + r; // far beyond 32 bits
        case 3:
            return 0x100000000ull;
        default:
            return r % 5000;
        }
    }
    switch (mode) {
    case 0:
        return 0;
    case 1:
        return h >= 1 ? 1 : 0;
    case 2:
        return h;
    case 3:
        return h >= 1 ? h - 1 : 0;
    case 4:
        return h / 2;
    default:
        return h == 0 ? 0 : r % (h + 1);
    }
}

struct Sut {
    Teakra::CoreTiming ct;
    Teakra::Timer t{ct};
    uint64_t irqs = 0;
    Sut() {
        t.SetInterruptHandler([this] { ++irqs; });
    }
    uint32_t mirror() const {
        return ((uint32_t)t.counter_high << 16) | t.counter_low;
    }
};

std::string encode(const Case& c) {
    std::string s;
    for (auto& op : c)
        s += std::string(kKindName[op.kind]) + " " + vf::hex(op.arg) + "\n";
    return s;
}
Case decode(const std::string& text) {
    Case c;
    for (auto& l : vf::lines(text)) {
        auto t = vf::split_ws(l);
        if (t.size() < 2)
            continue;
        Op op;
        for (int k = 0; k < NKIND; ++k)
            if (t[0] == kKindName[k])
                op.kind = k;
        op.arg = vf::unhex(t[1]);
        c.push_back(op);
    }
    return c;
}

rc::Gen<Op> genOp() {
    using namespace rc;
    auto startGen = gen::weightedOneOf<uint64_t>(
        {{6, gen::element<uint64_t>(0, 1, 2, 3, 4, 5, 7, 0xFFFF, 0x10000, 0x10001, 0xFFFFFFFFu, 0xFFFFFFFEu, 0x80000000u)},
         {3, gen::map(vf::range<uint64_t>(0, 64), [](uint64_t v) { return v; })},
         {2, gen::map(vf::range<uint64_t>(0, 0x100000000ull), [](uint64_t v) { return v; })}});
    return gen::weightedOneOf<Op>({
        {2, gen::map(vf::range<uint64_t>(0, 4), [](uint64_t m) { return Op{SetMode, m}; })},
        {3, gen::map(startGen, [](uint64_t v) { return Op{SetStart, v}; })},
        {1, gen::map(vf::range<uint64_t>(0, 2), [](uint64_t v) { return Op{SetPause, v}; })},
        {1, gen::map(vf::range<uint64_t>(0, 2), [](uint64_t v) { return Op{SetMU, v}; })},
        {3, gen::just(Op{Restart, 0})},
        {5, gen::map(vf::range<uint64_t>(1, 7), [](uint64_t v) { return Op{Tick, v}; })},
        {1, gen::just(Op{TickEvent, 0})},
        {6, gen::map(gen::pair(gen::element<uint64_t>(0, 0, 1, 2, 2, 3, 4, 5), vf::range<uint64_t>(0, 1u << 20)),
                     [](std::pair<uint64_t, uint64_t> p) { return Op{Skip, p.first | (p.second << 3)}; })},
    });
}

vf::Result check(const Case& cs) {
    Sut a, b; // a: Skip(k)   b: k x Tick()
    model::Timer m;
    bool saw_skip = false, saw_zero = false;
    std::string trace;
    auto fail = [&](const std::string& sig, const std::string& what, size_t i) {
        return vf::Result::fail(sig, what + " at op " + std::to_string(i) + " (" + trace + ")");
    };
    for (size_t i = 0; i < cs.size(); ++i) {
        const Op& op = cs[i];
        uint64_t irq_before = m.irqs;
        uint32_t counter_before = m.counter;
        std::string sigctx;
        try {
            switch (op.kind) {
            case SetMode:
                a.t.count_mode = b.t.count_mode = static_cast<Teakra::Timer::CountMode>(op.arg & 3);
                m.mode = op.arg & 3;
                trace += "mode" + std::to_string(op.arg & 3) + " ";
                break;
            case SetStart:
                a.t.start_low = b.t.start_low = op.arg & 0xFFFF;
                a.t.start_high = b.t.start_high = (op.arg >> 16) & 0xFFFF;
                m.start = (uint32_t)op.arg;
                trace += "start=" + vf::hex(op.arg) + " ";
                break;
            case SetPause:
                a.t.pause = b.t.pause = op.arg & 1;
                m.pause = op.arg & 1;
                trace += std::string("pause") + ((op.arg & 1) ? "1 " : "0 ");
                break;
            case SetMU:
                a.t.update_mmio = b.t.update_mmio = op.arg & 1;
                m.mu = op.arg & 1;
                trace += std::string("mu") + ((op.arg & 1) ? "1 " : "0 ");
                break;
            case Restart: {
                a.t.Restart();
                b.t.Restart();
                trace += "restart ";
                if (m.mode == model::Timer::FreeRunning) {
                    // the property does not say what a restart does in free-running mode:
                    // accept "reload" or "nothing", then follow the implementation
                    if (a.t.counter != m.counter && a.t.counter != m.start)
                        return fail("C15:restart:freerunning", "restart in free-running mode produced an unrelated counter", i);
                    m.counter = a.t.counter;
                    if (m.mu && a.mirror() == m.counter)
                        m.mirror = m.counter;
                    vf::klass("restart in free-running mode (out of model)");
                } else {
                    m.counter = m.start;
                    m.moved();
                }
                break;
            }
            case Tick: {
                uint64_t n = op.arg ? op.arg : 1;
                for (uint64_t j = 0; j < n; ++j) {
                    a.t.Tick();
                    b.t.Tick();
                    m.tick();
                }
                trace += "tick*" + std::to_string(n) + " ";
                break;
            }
            case TickEvent:
                a.t.TickEvent();
                b.t.TickEvent();
                m.tick_event();
                trace += "event ";
                break;
            case Skip: {
                uint64_t h = a.t.GetMaxSkip();
                uint64_t k = resolve_skip(op.arg, h);
                trace += "skip(" + std::to_string(k) + "/h=" + (h == UINT64_MAX ? std::string("inf") : std::to_string(h)) + ") ";
                // horizon must not reach over an interrupt: the model's own count of interrupt-free cycles
                uint64_t free_cycles = m.cycles_before_interrupt_cycle();
                if (h != UINT64_MAX && h > free_cycles)
                    return fail("C15:horizon:too-far", "reported horizon " + std::to_string(h) + " skips over an interrupt (only " +
                                                          std::to_string(free_cycles) + " interrupt-free cycles)",
                                i);
                if (h == UINT64_MAX && free_cycles != UINT64_MAX)
                    return fail("C15:horizon:too-far", "reported horizon is unbounded although an interrupt is due", i);
                bool running = !(m.pause || m.mode == model::Timer::EventCount);
                std::string cls = std::string("skip k") + (k == 0 ? "=0" : (k == h ? "=h" : (k == 1 ? "=1" : "<h"))) +
                                  (m.counter == 0 ? " at counter 0" : "") + " mode " + std::to_string(m.mode) +
                                  (running ? "" : " (paused/event)");
                vf::klass(cls);
                if (k >= 1 && running)
                    saw_skip = true;
                sigctx = std::string(k == 0 ? "skip0" : "skipk") + ":mode" + std::to_string(m.mode) +
                         (m.counter == 0 ? ":counter0" : ":counterN");
                a.t.Skip(k);
                uint64_t b_irq0 = b.irqs;
                if (k <= 8192) {
                    for (uint64_t j = 0; j < k; ++j)
                        b.t.Tick();
                    if (b.irqs != b_irq0)
                        return fail("C15:horizon:irq-inside", "an interrupt fired inside a permitted skip of " + std::to_string(k), i);
                } else {
                    // too long to tick: bring the twin along by the same Skip; the closed-form model is the oracle here
                    b.t.Skip(k);
                    vf::klass("skip longer than 8192 cycles (model only)");
                }
                m.advance(k);
                // twin comparison: Skip(k) == k x Tick()
                if (a.t.counter != b.t.counter || a.mirror() != b.mirror() || a.irqs != b.irqs) {
                    return fail("C15:twin:" + sigctx,
                                "Skip(" + std::to_string(k) + ") differs from " + std::to_string(k) + " x Tick(): counter " +
                                    vf::hex(a.t.counter) + " vs " + vf::hex(b.t.counter) + ", mirror " + vf::hex(a.mirror()) + " vs " +
                                    vf::hex(b.mirror()) + ", irqs " + std::to_string(a.irqs) + " vs " + std::to_string(b.irqs),
                                i);
                }
                break;
            }
            }
        } catch (const TeakraVerifAssertFailure& e) {
            return fail("C15:assert:" + std::string(e.expression), std::string("assertion ") + e.expression + " fired on an in-contract operation", i);
        }
        if (m.irqs != irq_before)
            saw_zero = true;
        if (counter_before == 1 && m.counter == 0)
            vf::klass("1->0 crossing mode " + std::to_string(m.mode));
        // model comparison
        std::string msig = sigctx.empty() ? std::string(kKindName[op.kind]) : sigctx;
        if (a.t.counter != m.counter)
            return fail("C15:model:counter:" + msig, "counter " + vf::hex(a.t.counter) + " but model says " + vf::hex(m.counter), i);
        if (a.irqs != m.irqs)
            return fail("C15:model:irq:" + msig, "interrupt count " + std::to_string(a.irqs) + " but model says " + std::to_string(m.irqs), i);
        if (b.t.counter != m.counter || b.irqs != m.irqs)
            return fail("C15:model:twin:" + msig, "ticked twin diverged from the model", i);
        uint32_t mir = a.mirror();
        if (!m.mu) {
            if (mir != m.mirror)
                return fail("C15:model:mirror-frozen:" + msig, "mirror changed to " + vf::hex(mir) + " while MU=0 (was " + vf::hex(m.mirror) + ")", i);
        } else {
            if (mir != m.mirror && mir != m.counter)
                return fail("C15:model:mirror:" + msig, "mirror " + vf::hex(mir) + " is neither the counter " + vf::hex(m.counter) +
                                                             " nor its previous value " + vf::hex(m.mirror),
                            i);
            m.mirror = mir;
        }
    }
    bool nontrivial = saw_skip || saw_zero;
    std::string enc = encode(cs);
    vf::note(vf::hash_str(enc), nontrivial);
    if (nontrivial && cs.size() <= 12)
        vf::sample(trace);
    return vf::Result::pass();
}

// ---- two timers on one CoreTiming: the bulk advance as the core uses it ---------------------------------------------------------
// CoreTiming::Skip(max) must advance every registered component by the same k = min(max, all horizons) and return it; the twin pair
// performs k x CoreTiming::Tick().
struct POp {
    int kind = 0; // 0 configure+restart, 1 tick, 2 skip, 3 pause toggle
    unsigned which = 0;
    uint64_t a = 0, b = 0;
};
using PCase = std::vector<POp>;
struct PairSut {
    Teakra::CoreTiming ct;
    Teakra::Timer t0{ct}, t1{ct};
    uint64_t irqs[2] = {0, 0};
    PairSut() {
        t0.SetInterruptHandler([this] { ++irqs[0]; });
        t1.SetInterruptHandler([this] { ++irqs[1]; });
        t0.update_mmio = t1.update_mmio = 1;
    }
    Teakra::Timer& t(unsigned i) {
        return i ? t1 : t0;
    }
};
std::string pencode(const PCase& c) {
    std::string s;
    for (auto& op : c)
        s += "p " + vf::hex(op.kind) + " " + vf::hex(op.which) + " " + vf::hex(op.a) + " " + vf::hex(op.b) + "\n";
    return s;
}
PCase pdecode(const std::string& text) {
    PCase c;
    for (auto& l : vf::lines(text)) {
        auto t = vf::split_ws(l);
        if (t.size() < 5 || t[0] != "p")
            continue;
        POp op;
        op.kind = (int)vf::unhex(t[1]) % 4;
        op.which = (unsigned)vf::unhex(t[2]) & 1;
        op.a = vf::unhex(t[3]);
        op.b = vf::unhex(t[4]);
        c.push_back(op);
    }
    return c;
}
vf::Result pcheck(const PCase& cs) {
    PairSut A, B;
    std::string trace;
    bool nontrivial = false;
    auto fail = [&](const std::string& sig, const std::string& what, size_t i) {
        return vf::Result::fail(sig, what + " at op " + std::to_string(i) + " (" + trace + ")");
    };
    for (size_t i = 0; i < cs.size(); ++i) {
        const POp& op = cs[i];
        try {
            switch (op.kind) {
            case 0: // configure + restart one timer (event-count mode left to the single-timer property)
                for (PairSut* s : {&A, &B}) {
                    Teakra::Timer& t = s->t(op.which);
                    t.count_mode = static_cast<Teakra::Timer::CountMode>(op.a % 3);
                    t.start_low = (uint16_t)op.b;
                    t.start_high = (uint16_t)(op.b >> 16);
                    t.Restart();
                }
                trace += "cfg" + std::to_string(op.which) + "(m" + std::to_string(op.a % 3) + "," + vf::hex(op.b) + ") ";
                break;
            case 1: {
                uint64_t n = 1 + op.a % 6;
                for (uint64_t j = 0; j < n; ++j) {
                    A.ct.Tick();
                    B.ct.Tick();
                }
                trace += "tick*" + std::to_string(n) + " ";
                break;
            }
            case 2: {
                uint64_t max = op.a;
                uint64_t h0 = A.t0.GetMaxSkip(), h1 = A.t1.GetMaxSkip();
                uint64_t want = std::min(max, std::min(h0, h1));
                uint64_t k = A.ct.Skip(max);
                trace += "skip(max=" + std::to_string(max) + ")=" + std::to_string(k) + " ";
                if (k != want)
                    return fail("C15:coretiming:k", "CoreTiming::Skip(" + std::to_string(max) + ") returned " + std::to_string(k) + " but the minimum of the maximum and the two horizons is " +
                                                        std::to_string(want), i);
                if (k > 20000) { // too long to tick: bring the twin along per timer; the single-timer property covers Timer::Skip itself
                    B.t0.Skip(k);
                    B.t1.Skip(k);
                } else {
                    for (uint64_t j = 0; j < k; ++j)
                        B.ct.Tick();
                }
                if (k >= 1)
                    nontrivial = true;
                vf::klass(h1 < h0 && h1 <= max ? "pair: the later-registered timer limits the skip"
                                               : (h0 < h1 && h0 <= max ? "pair: the first timer limits the skip" : "pair: the caller's maximum (or a tie) limits the skip"));
                break;
            }
            default:
                A.t(op.which).pause = B.t(op.which).pause = op.a & 1;
                trace += std::string("pause") + std::to_string(op.which) + "=" + std::to_string(op.a & 1) + " ";
                break;
            }
        } catch (const TeakraVerifAssertFailure& e) {
            return fail("C15:coretiming:assert:" + std::string(e.expression), std::string("assertion ") + e.expression + " fired on an in-contract operation", i);
        }
        for (unsigned w = 0; w < 2; ++w) {
            Teakra::Timer &x = A.t(w), &y = B.t(w);
            if (x.counter != y.counter || x.counter_low != y.counter_low || x.counter_high != y.counter_high || A.irqs[w] != B.irqs[w])
                return fail("C15:coretiming:twin:timer" + std::to_string(w),
                            "after a bulk advance timer " + std::to_string(w) + " differs from the ticked twin: counter " + vf::hex(x.counter) + " vs " + vf::hex(y.counter) +
                                ", interrupts " + std::to_string(A.irqs[w]) + " vs " + std::to_string(B.irqs[w]), i);
        }
    }
    vf::note(vf::hash_str(pencode(cs)), nontrivial);
    if (nontrivial && cs.size() <= 8)
        vf::sample("pair: " + trace);
    return vf::Result::pass();
}
rc::Gen<POp> genPOp() {
    using namespace rc;
    auto startGen = gen::weightedOneOf<uint64_t>({{5, vf::range<uint64_t>(0, 40)}, {3, vf::range<uint64_t>(0, 3000)}, {1, gen::element<uint64_t>(0xFFFF, 0x10000, 0xFFFFFFFFu)}});
    auto maxGen = gen::weightedOneOf<uint64_t>({{2, gen::element<uint64_t>(0, 1, 2)}, {3, vf::range<uint64_t>(0, 200)}, {3, gen::element<uint64_t>(1000, 100000, 1ull << 40)}});
    return gen::weightedOneOf<POp>({
        {4, gen::map(gen::tuple(vf::range<unsigned>(0, 2), vf::range<uint64_t>(0, 3), startGen), [](std::tuple<unsigned, uint64_t, uint64_t> t) { return POp{0, std::get<0>(t), std::get<1>(t), std::get<2>(t)}; })},
        {2, gen::map(vf::range<uint64_t>(0, 6), [](uint64_t n) { return POp{1, 0, n, 0}; })},
        {6, gen::map(maxGen, [](uint64_t m) { return POp{2, 0, m, 0}; })},
        {1, gen::map(gen::pair(vf::range<unsigned>(0, 2), vf::range<uint64_t>(0, 2)), [](std::pair<unsigned, uint64_t> p) { return POp{3, p.first, p.second, 0}; })},
    });
}

// ---- both timers behind the facade: MMIO wiring of the configuration word, the idle loop's fast-forward, the ICU lines -----------
struct FOp {
    int kind = 0; // 0 write start, 1 write configuration, 2 event write, 3 run
    unsigned which = 0;
    uint64_t a = 0;
};
using FCase = std::vector<FOp>;
std::string fencode(const FCase& c) {
    std::string s;
    for (auto& op : c)
        s += "f " + vf::hex(op.kind) + " " + vf::hex(op.which) + " " + vf::hex(op.a) + "\n";
    return s;
}
FCase fdecode(const std::string& text) {
    FCase c;
    for (auto& l : vf::lines(text)) {
        auto t = vf::split_ws(l);
        if (t.size() < 4 || t[0] != "f")
            continue;
        FOp op;
        op.kind = (int)(vf::unhex(t[1]) % 4);
        op.which = (unsigned)vf::unhex(t[2]) & 1;
        op.a = vf::unhex(t[3]);
        c.push_back(op);
    }
    return c;
}
vf::Result fcheck(const FCase& cs) {
    static Teakra::Teakra* inst = new Teakra::Teakra(Teakra::UserConfig{});
    Teakra::Teakra& t = *inst;
    t.Reset();
    t.ProgramWrite(0, 0x57F0); // brr -1: the DSP idles
    t.GetRegisterState().pc = 0;
    t.MMIOWrite(0x20, 0);
    t.MMIOWrite(0x30, 0);
    model::Timer m[2];
    std::string trace;
    bool nontrivial = false;
    auto fail = [&](const std::string& sig, const std::string& what, size_t i) {
        return vf::Result::fail(sig, what + " at op " + std::to_string(i) + " (" + trace + ")");
    };
    // half of the histories never acknowledge the controller: every 1 -> 0 crossing must still reach the core (timer 0 on int0, timer 1
    // on int1; the core keeps its interrupts disabled, so a delivered request shows as the line's pending bit)
    const bool no_ack = !cs.empty() && (cs[0].a >> 20) % 2 == 1;
    uint64_t acked[2] = {0, 0};
    if (no_ack) {
        t.MMIOWrite(0x206, 0x0400);
        t.MMIOWrite(0x208, 0x0200);
        t.MMIOWrite(0x20A, 0x0400); // timer 0 is also routed to a second core line: every line it is routed to must be raised
        vf::klass("facade: controller never acknowledged, delivery observed at the core");
    }
    for (size_t i = 0; i < cs.size(); ++i) {
        const FOp& op = cs[i];
        const uint16_t base = (uint16_t)(0x20 + 0x10 * op.which);
        model::Timer& T = m[op.which];
        uint64_t irq0[2] = {m[0].irqs, m[1].irqs};
        if (!no_ack)
            t.MMIOWrite(0x202, 0x0600); // acknowledge both timer lines
        switch (op.kind) {
        case 0: {
            uint32_t v = (uint32_t)(op.a % 5 == 0 ? op.a % 0x30000 : op.a % 300);
            t.MMIOWrite(base + 4, (uint16_t)v);
            t.MMIOWrite(base + 6, (uint16_t)(v >> 16));
            T.start = v;
            trace += "start" + std::to_string(op.which) + "=" + vf::hex(v) + " ";
            break;
        }
        case 1: { // configuration word: count mode, pause, restart strobe; MU stays on so that the counter can be read back
            unsigned cm = (unsigned)(op.a % 4), pc = (op.a >> 2) % 8 == 0, res = (op.a >> 5) % 3 != 0;
            t.MMIOWrite(base, (uint16_t)((cm << 2) | (pc << 8) | 0x0200 | (res << 10)));
            T.mode = cm;
            T.pause = pc;
            T.mu = true;
            if (res && cm != model::Timer::FreeRunning) {
                T.counter = T.start;
                T.moved();
            }
            trace += "cfg" + std::to_string(op.which) + "(cm" + std::to_string(cm) + (pc ? ",pause" : "") + (res ? ",res" : "") + ") ";
            break;
        }
        case 2:
            t.MMIOWrite(base + 2, 1);
            T.tick_event();
            trace += "event" + std::to_string(op.which) + " ";
            break;
        default: {
            unsigned n = (unsigned)(op.a % 3 == 0 ? 1 + op.a % 8 : 1 + op.a % 700);
            t.Run(n);
            for (unsigned k = 0; k < n; ++k) {
                m[0].tick();
                m[1].tick();
            }
            trace += "run(" + std::to_string(n) + ") ";
            nontrivial = true;
            break;
        }
        }
        uint16_t pending = t.MMIORead(0x200);
        for (unsigned w = 0; w < 2; ++w) {
            uint16_t b = (uint16_t)(0x20 + 0x10 * w);
            uint32_t counter = t.MMIORead(b + 8) | ((uint32_t)t.MMIORead(b + 10) << 16);
            if (m[w].mu && counter != m[w].counter && !(m[w].mode == model::Timer::FreeRunning && op.kind == 1 && op.which == w))
                return fail("C15:facade:counter:timer" + std::to_string(w), "timer " + std::to_string(w) + " reads back " + vf::hex(counter) + " but must be at " +
                                                                                 vf::hex(m[w].counter), i);
            if (m[w].mode == model::Timer::FreeRunning && op.kind == 1 && op.which == w && m[w].mu)
                m[w].counter = counter; // a restart in free-running mode is outside the statement: follow the implementation
            bool irq = (pending >> (w == 0 ? 0xA : 0x9)) & 1;
            if (!no_ack && irq != (m[w].irqs != irq0[w]))
                return fail("C15:facade:irq:timer" + std::to_string(w), "timer " + std::to_string(w) + (irq ? " raised its interrupt although its counter did not go from 1 to 0"
                                                                                                           : " did not raise its interrupt although its counter went from 1 to 0"), i);
        }
        if (no_ack) {
            // requests raised so far become visible to the core at the top of the next cycle: run one more cycle, then look
            const uint64_t pre[2] = {m[0].irqs, m[1].irqs};
            t.Run(1);
            m[0].tick();
            m[1].tick();
            auto& regs = t.GetRegisterState();
            for (unsigned w = 0; w < 2; ++w) {
                bool delivered = regs.ip[w] != 0, expected = pre[w] != acked[w];
                if (delivered != expected)
                    return fail("C15:facade:delivery:timer" + std::to_string(w), "timer " + std::to_string(w) + (expected ? " went from 1 to 0 (its earlier request still unacknowledged in the controller) but the core line was not raised"
                                                                                                                          : " raised the core line although its counter did not go from 1 to 0"), i);
                regs.ip[w] = 0;
                acked[w] = pre[w];
                if (w == 0) {
                    if ((regs.ip[2] != 0) != expected)
                        return fail("C15:facade:delivery:timer0:second-line", std::string("timer 0 is routed to int0 and int2; int2 was ") + (expected ? "not raised with int0" : "raised without a 1 -> 0 crossing"), i);
                    regs.ip[2] = 0;
                }
            }
        }
    }
    vf::klass("facade: timers through MMIO");
    vf::note(vf::hash_str(fencode(cs)), nontrivial);
    return vf::Result::pass();
}
rc::Gen<FCase> genFCase() {
    using namespace rc;
    auto opGen = gen::map(gen::tuple(gen::weightedElement<int>({{3, 0}, {4, 1}, {1, 2}, {5, 3}}), vf::range<unsigned>(0, 2), gen::resize(100, gen::arbitrary<uint64_t>())),
                          [](std::tuple<int, unsigned, uint64_t> p) { return FOp{std::get<0>(p), std::get<1>(p), std::get<2>(p)}; });
    return gen::container<FCase>(opGen);
}

} // namespace

int main(int argc, char** argv) {
    vf::init(argc, argv, "C15");
    vf::Property<Case> p;
    p.name = "timer_history";
    p.gen = [] { return rc::gen::container<Case>(genOp()); };
    p.check = check;
    p.encode = encode;
    p.decode = decode;
    p.max_size = 80;
    p.share = 0.8;
    vf::run(p);

    vf::Property<PCase> q;
    q.name = "core_timing_pair";
    q.gen = [] { return rc::gen::container<PCase>(genPOp()); };
    q.check = pcheck;
    q.encode = pencode;
    q.decode = pdecode;
    q.max_size = 40;
    q.share = 0.2;
    vf::run(q);

    vf::Property<FCase> f;
    f.name = "timer_facade";
    f.gen = genFCase;
    f.check = fcheck;
    f.encode = fencode;
    f.decode = fdecode;
    f.max_size = 40;
    f.share = 0.02;
    vf::run(f);
    return vf::finish();
}
