// C03 -- accumulator add/subtract/compare/logic results, flags and saturation are exact.
// Every encoding of the ALU families x boundary-biased 40/16-bit operands x saturation / flag pre-states, executed
// on the real interpreter and compared field by field with an expected state built by the independent reference
// ALU (ref_alu.h): destination accumulator, exactly the listed flags, pc, post-modified address register -- and
// nothing else (frame condition; compare forms change flags only).
#include <map>
#include "icase.h"
#include "optable.h"
#include "imodel.h"
#include "pseudo_layout.h"
#include "ref_alu.h"
#include "vf.h"

namespace {

using flat::State;
using namespace ralu;

icase::Machine& sut() {
    static icase::Machine* m = new icase::Machine(ICASE_FNS(sut_));
    return *m;
}

enum AlmOp { Or, And, Xor, Add, Tst0, Tst1, Cmp, Sub, Msu, Addh, Addl, Subh, Subl, Sqr, Sqra, Cmpu, Reserved };
const AlmOp kAlu[8] = {Or, And, Xor, Add, Reserved, Reserved, Cmp, Sub};
const char* kAlmName[] = {"or", "and", "xor", "add", "tst0", "tst1", "cmp", "sub", "msu", "addh", "addl", "subh", "subl", "sqr", "sqra", "cmpu", "?"};
enum ModaOp { Shr, Shr4, Shl, Shl4, Ror, Rol, Clr, MReserved, Not, Neg, Rnd, Pacr, Clrr, Inc, Dec, Copy };
const ModaOp kModa3[8] = {Shr, Shr4, Shl, Shl4, Ror, Rol, Clr, Clrr};

bool alm_in_scope(AlmOp op) {
    switch (op) {
    case Or:
    case And:
    case Xor:
    case Add:
    case Cmp:
    case Sub:
    case Addh:
    case Addl:
    case Subh:
    case Subl:
    case Cmpu:
        return true;
    default:
        return false;
    }
}
bool moda_in_scope(ModaOp op) {
    switch (op) {
    case Clr:
    case Not:
    case Neg:
    case Rnd:
    case Clrr:
    case Inc:
    case Dec:
    case Copy:
        return true;
    default:
        return false;
    }
}

bool in_scope(const optable::Info& i) {
    if (i.entry < 0)
        return false;
    const std::string& n = i.name;
    if (n == "alm" || n == "alm_r6")
        return alm_in_scope((AlmOp)i.operands[0].value);
    if (n == "alu")
        return alm_in_scope(kAlu[i.operands[0].value & 7]);
    if (n == "moda4")
        return moda_in_scope((ModaOp)i.operands[0].value);
    if (n == "moda3")
        return moda_in_scope(kModa3[i.operands[0].value & 7]);
    static const char* names[] = {"or_", "and_", "add", "add_p1", "sub", "sub_p1", "cmp", "cmp_b0_b1", "cmp_b1_b0", "cmp_p1_to",
                                  "clr", "clrr", "lim", "movr", "movr_r6_to"};
    for (const char* k : names)
        if (n == k)
            return true;
    return i.form == "mov(Ab,Ab)";
}

const std::vector<uint16_t>& domain() {
    static std::vector<uint16_t> d = [] {
        std::vector<uint16_t> v;
        for (uint32_t w = 0; w < 0x10000; ++w)
            if (in_scope(optable::info((uint16_t)w)))
                v.push_back((uint16_t)w);
        return v;
    }();
    return d;
}
// stratification: (form, operation) groups get equal mass although alm [page:imm8] covers thousands of words and
// cmp b0,b1 a single one
const std::vector<std::vector<uint16_t>>& strata() {
    static std::vector<std::vector<uint16_t>> g = [] {
        std::map<std::string, std::vector<uint16_t>> m;
        for (uint16_t w : domain()) {
            const optable::Info& i = optable::info(w);
            std::string key = i.form;
            if (i.name == "alm" || i.name == "alm_r6" || i.name == "alu" || i.name == "moda4" || i.name == "moda3")
                key += "#" + std::to_string(i.operands[0].value);
            m[key].push_back(w);
        }
        std::vector<std::vector<uint16_t>> v;
        for (auto& kv : m)
            v.push_back(kv.second);
        return v;
    }();
    return g;
}

using imodel::cond_pass;

struct Model : imodel::Model {
    explicit Model(const icase::ICase& cc) : imodel::Model(cc) {}
    // operand extension per operation
    int64_t extend(AlmOp op, uint16_t v) {
        switch (op) {
        case Add:
        case Sub:
        case Cmp:
            if (v & 0x8000)
                cls = "negative 16-bit operand (sign extension matters)";
            return (int16_t)v;
        case Addh:
        case Subh:
            cls = "high-half operand";
            return (int64_t)(int32_t)((uint32_t)v << 16);
        default:
            return v; // addl, subl, cmpu, or, and, xor: unsigned
        }
    }
    void alm_apply(AlmOp op, int64_t operand, AccId d) {
        int64_t a = s40(e[acc_field(d)]);
        switch (op) {
        case Or:
            write_logic(e, d, a | operand);
            break;
        case And:
            write_logic(e, d, a & operand);
            break;
        case Xor:
            write_logic(e, d, a ^ operand);
            break;
        case Add:
        case Addh:
        case Addl:
            write_arith(e, d, add_sub(e, a, operand, false));
            break;
        case Sub:
        case Subh:
        case Subl:
            write_arith(e, d, add_sub(e, a, operand, true));
            break;
        case Cmp:
        case Cmpu:
            result_flags(e, add_sub(e, a, operand, true)); // flags only
            break;
        default:
            skip = true;
        }
    }
};

// expected state for one case; skip=true: outside the modelled domain
State expected(const icase::ICase& c, bool& skip, std::string& cls) {
    const optable::Info info = optable::decode(c.opcode, c.expansion);
    Model m(c);
    const auto& o = info.operands;
    const std::string& f = info.form;
    m.e[flat::F_pc] = c.st[flat::F_pc] + 1 + (info.expanded ? 1 : 0);
    if (info.name == "alm" || info.name == "alm_r6" || info.name == "alu") {
        AlmOp op = info.name == "alu" ? kAlu[o[0].value & 7] : (AlmOp)o[0].value;
        AccId d = ax(o.back().value);
        int64_t operand = 0;
        if (f == "alm(AlmOp#16,MemImm8,Ax)")
            operand = m.extend(op, m.mem((uint16_t)((c.st[flat::F_page] << 8) | o[1].value)));
        else if (f == "alm(AlmOp#16,Rn,StepValue#4,Ax)")
            operand = m.extend(op, m.rn_access((unsigned)o[1].value, (unsigned)o[2].value));
        else if (f == "alm(AlmOp#16,Register,Ax)") {
            std::string rn = kRegisterOperand[o[1].value & 31];
            if (rn == "pc") {
                skip = true; // deliberate UNREACHABLE in the source
            } else if (rn == "p" || rn == "a0" || rn == "a1") {
                // 40-bit operand; the source documents only or/and/xor/add/cmp/sub as defined here
                if (!(op == Or || op == And || op == Xor || op == Add || op == Cmp || op == Sub))
                    skip = true;
                operand = rn == "p" ? product_value(c.st, 0) : s40(c.st[rn == "a0" ? flat::F_a : flat::F_a + 1]);
                m.cls = "40-bit register operand";
            } else {
                bool ok;
                uint16_t v = read16(c.st, rn, ok);
                if (!ok)
                    skip = true;
                operand = m.extend(op, v);
            }
        } else if (f == "alm_r6(AlmOp#16,Ax)")
            operand = m.extend(op, (uint16_t)c.st[flat::F_r + 6]);
        else if (f == "alu(AlmOp#8,MemImm16,Ax)")
            operand = m.extend(op, m.mem((uint16_t)o[1].value));
        else if (f == "alu(AlmOp#8,MemR7Imm16,Ax)")
            operand = m.extend(op, m.mem((uint16_t)(o[1].value + c.st[flat::F_r + 7])));
        else if (f == "alu(AlmOp#8,Imm16,Ax)")
            operand = m.extend(op, (uint16_t)o[1].value);
        else if (f == "alu(AlmOp#8,Imm8,Ax)")
            operand = m.extend(op, (uint16_t)o[1].value);
        else if (f == "alu(AlmOp#8,MemR7Imm7s,Ax)") {
            unsigned i7 = (unsigned)o[1].value & 0x7F;
            int off = (i7 & 0x40) ? (int)i7 - 128 : (int)i7;
            operand = m.extend(op, m.mem((uint16_t)(c.st[flat::F_r + 7] + off)));
        } else
            skip = true;
        if (f == "alu(AlmOp#8,Imm8,Ax)" && op == And) {
            // as that form defines: bits 8..15 of the accumulator are preserved, flags as if they were cleared
            uint64_t keep = m.e[acc_field(d)] & 0xFF00;
            m.alm_apply(op, operand, d);
            m.e[acc_field(d)] = (m.e[acc_field(d)] & ~0xFF00ull) | keep;
            m.cls = "and #imm8 (bits 8-15 preserved)";
        } else
            m.alm_apply(op, operand, d);
    } else if (info.name == "or_" || info.name == "and_") {
        AccId s1, s2, d = ax(o[2].value);
        if (f == "or_(Ab,Ax,Ax)" || f == "and_(Ab,Ab,Ax)") {
            s1 = ab(o[0].value);
            s2 = info.name == "and_" ? ab(o[1].value) : ax(o[1].value);
        } else if (f == "or_(Ax,Bx,Ax)") {
            s1 = ax(o[0].value);
            s2 = bx(o[1].value);
        } else {
            s1 = bx(o[0].value);
            s2 = bx(o[1].value);
        }
        int64_t a = s40(c.st[acc_field(s1)]), b = s40(c.st[acc_field(s2)]);
        write_logic(m.e, d, info.name == "or_" ? (a | b) : (a & b));
    } else if (info.name == "add" || info.name == "sub" || info.name == "add_p1" || info.name == "sub_p1") {
        bool sub = info.name[0] == 's';
        int64_t src;
        AccId d;
        if (f == "add(Ab,Bx)" || f == "sub(Ab,Bx)") {
            src = s40(c.st[acc_field(ab(o[0].value))]);
            d = bx(o[1].value);
        } else if (f == "add(Bx,Ax)" || f == "sub(Bx,Ax)") {
            src = s40(c.st[acc_field(bx(o[0].value))]);
            d = ax(o[1].value);
        } else if (f == "add(Px,Bx)" || f == "sub(Px,Bx)") {
            src = product_value(c.st, (int)o[0].value);
            d = bx(o[1].value);
            m.cls = "product operand";
        } else {
            src = product_value(c.st, 1);
            d = ax(o[0].value);
            m.cls = "product operand";
        }
        write_arith(m.e, d, add_sub(m.e, s40(c.st[acc_field(d)]), src, sub));
    } else if (info.name.rfind("cmp", 0) == 0) {
        int64_t a, b; // flags of b - a
        if (f == "cmp(Ax,Bx)") {
            a = s40(c.st[acc_field(ax(o[0].value))]);
            b = s40(c.st[acc_field(bx(o[1].value))]);
        } else if (f == "cmp(Bx,Ax)") {
            a = s40(c.st[acc_field(bx(o[0].value))]);
            b = s40(c.st[acc_field(ax(o[1].value))]);
        } else if (f == "cmp_b0_b1()") {
            a = s40(c.st[flat::F_b + 0]);
            b = s40(c.st[flat::F_b + 1]);
        } else if (f == "cmp_b1_b0()") {
            a = s40(c.st[flat::F_b + 1]);
            b = s40(c.st[flat::F_b + 0]);
        } else {
            a = product_value(c.st, 1);
            b = s40(c.st[acc_field(ax(o[0].value))]);
            m.cls = "product operand";
        }
        result_flags(m.e, add_sub(m.e, b, a, true));
        m.cls = m.cls.empty() ? "compare form (flags only)" : m.cls;
    } else if (info.name == "moda4" || info.name == "moda3") {
        ModaOp op = info.name == "moda4" ? (ModaOp)o[0].value : kModa3[o[0].value & 7];
        AccId d = info.name == "moda4" ? ax(o[1].value) : bx(o[1].value);
        if (cond_pass(c.st, (unsigned)o[2].value)) {
            int64_t a = s40(c.st[acc_field(d)]);
            switch (op) {
            case Clr:
                write_arith(m.e, d, 0);
                break;
            case Clrr:
                write_arith(m.e, d, 0x8000);
                break;
            case Not:
                write_logic(m.e, d, ~a);
                break;
            case Neg:
                write_arith(m.e, d, add_sub(m.e, 0, a, true));
                break;
            case Rnd:
                write_arith(m.e, d, add_sub(m.e, a, 0x8000, false));
                break;
            case Inc:
                write_arith(m.e, d, add_sub(m.e, a, 1, false));
                break;
            case Dec:
                write_arith(m.e, d, add_sub(m.e, a, 1, true));
                break;
            case Copy:
                write_arith(m.e, d, s40(c.st[acc_field(d == A0 ? A1 : A0)]));
                break;
            default:
                skip = true;
            }
        } else
            m.cls = "condition false (no effect)";
    } else if (info.name == "clr" || info.name == "clrr") {
        // two accumulators; the pair actually cleared follows the hardware's pairing rule, which the property does not
        // state: take the destinations from what the instruction writes and check values and flags only
        skip = true;
    } else if (f == "mov(Ab,Ab)") {
        write_arith(m.e, ab(o[1].value), s40(c.st[acc_field(ab(o[0].value))]));
    } else if (f == "lim(Ax,Ax)") {
        int64_t a = s40(c.st[acc_field(ax(o[0].value))]);
        if (!fits32(a)) {
            m.e[flat::F_flm] = 1;
            a = a < 0 ? -(int64_t)0x80000000ll : 0x7FFFFFFFll;
            m.cls = "lim saturates";
        }
        write_logic(m.e, ax(o[1].value), a);
    } else if (info.name == "movr" || info.name == "movr_r6_to") {
        // rounding move: +0x8000. 16-bit sources are, as the source documents, added in 16 bits (carry = bit 16,
        // overflow cleared); 40-bit sources use the full adder
        auto sixteen = [&](uint16_t v, AccId d) {
            uint32_t r = (uint32_t)v + 0x8000u;
            m.e[flat::F_fc0] = (r >> 16) & 1;
            m.e[flat::F_fv] = 0;
            write_arith(m.e, d, (int64_t)(r & 0xFFFF));
            m.cls = "movr 16-bit form (as that form defines)";
        };
        if (f == "movr(ArRn2,ArStep2,Abh)") {
            skip = true; // addressing through ar words: C10/C20 territory
        } else if (f == "movr(Rn,StepValue#4,Ax)") {
            sixteen(m.rn_access((unsigned)o[0].value, (unsigned)o[1].value), ax(o[2].value));
        } else if (f == "movr(Bx,Ax)") {
            write_arith(m.e, ax(o[1].value), add_sub(m.e, s40(c.st[acc_field(bx(o[0].value))]), 0x8000, false));
        } else if (f == "movr_r6_to(Ax)") {
            sixteen((uint16_t)c.st[flat::F_r + 6], ax(o[0].value));
        } else if (f == "movr(Register,Ax)") {
            std::string rn = kRegisterOperand[o[0].value & 31];
            AccId d = ax(o[1].value);
            if (rn == "pc")
                skip = true;
            else if (rn == "a0" || rn == "a1")
                write_arith(m.e, d, add_sub(m.e, s40(c.st[rn == "a0" ? flat::F_a : flat::F_a + 1]), 0x8000, false));
            else if (rn == "p")
                write_arith(m.e, d, add_sub(m.e, product_value(c.st, 0), 0x8000, false));
            else {
                bool ok;
                uint16_t v = read16(c.st, rn, ok);
                if (!ok)
                    skip = true;
                sixteen(v, d);
            }
        } else
            skip = true;
    } else
        skip = true;
    skip = skip || m.skip;
    cls = m.cls;
    return m.e;
}

struct Seed {
    uint64_t seed;
    uint32_t pick;
    uint16_t expansion;
};

icase::ICase build(const Seed& sd) {
    vf::Stream s(sd.seed);
    icase::ICase c;
    const auto& grp = strata()[(sd.pick >> 16) % strata().size()];
    c.opcode = grp[(sd.pick & 0xFFFF) % grp.size()];
    c.expansion = sd.expansion;
    c.st = icase::gen_state(s, 8);
    State& st = c.st;
    // the property is about the ALU: addressing is pinned to the plain linear case, no loops, no interrupts
    for (int i = 0; i < 8; ++i) {
        st[flat::F_m + i] = 0;
        st[flat::F_br + i] = 0;
    }
    st[flat::F_epi] = st[flat::F_epj] = 0;
    st[flat::F_stp16] = 0;
    st[flat::F_rep] = 0;
    st[flat::F_bcn] = 0;
    st[flat::F_lp] = 0;
    st[flat::F_ie] = 0;
    for (int i = 0; i < 3; ++i)
        st[flat::F_ip + i] = 0;
    st[flat::F_ipv] = 0;
    st[flat::F_ps + 0] = st[flat::F_ps + 1] = 0; // product shifter neutral (C04's subject)
    st[flat::F_pc] = 0x1000 + s.below(0x1000);   // program text away from the data cells
    if (s.chance(1, 2))
        st[flat::F_sata] = 0;
    // make the 32-bit boundary likely
    if (s.chance(1, 4)) {
        int k = (int)s.below(4);
        uint64_t v = s.chance(1, 2) ? 0x7FFFFFFFull - s.below(3) : 0xFFFFFF80000000ull + s.below(3);
        st[k < 2 ? flat::F_a + k : flat::F_b + k - 2] = flat::sext40(v);
    }
    c.pokes = icase::gen_pokes(s, c.st, c.opcode, c.expansion);
    if (s.chance(1, 6)) {
        // history: the accumulator extension is first written by the program through the TeakLite status word that shows it
        // (mov ##v, st0 / st1: a0e / a1e nibble, flags, limit bits), then the ALU instruction runs on what that left behind
        static const int mov_st[2] = {optable::find_word("mov(Imm16,Register)", {-1, 8}), optable::find_word("mov(Imm16,Register)", {-1, 9})};
        int k = (int)s.bits(1);
        if (mov_st[k] >= 0) {
            uint16_t v = icase::gen_u16(s);
            if (s.chance(1, 2))
                v |= 0x8000; // a negative extension nibble
            v &= (uint16_t)~0x000E; // (st0: interrupt enables stay off)
            if (k == 1)
                v = (uint16_t)((v & 0xF300) | (st[flat::F_page] & 0xFF)); // st1: same data page, product shifter stays neutral
            c.more_code = {c.opcode, c.expansion};
            c.opcode = (uint16_t)mov_st[k];
            c.expansion = v;
            c.cycles = 2;
        }
    }
    return c;
}

int layout_index_of(const char* word) {
    for (size_t i = 0; i < layout::words().size(); ++i)
        if (layout::words()[i].name == std::string(word))
            return (int)i;
    return -1;
}

vf::Result check(const icase::ICase& c0) {
    // a case with a status-word prefix: the expected state is that of the ALU instruction on the state the prefix leaves
    icase::ICase c = c0;
    bool prefixed = false;
    {
        const optable::Info& pi = optable::info(c0.opcode);
        if (c0.cycles == 2 && c0.more_code.size() == 2 && pi.form == "mov(Imm16,Register)" && pi.operands.size() >= 2 &&
            (pi.operands[1].value == 8 || pi.operands[1].value == 9)) {
            int li = layout_index_of(pi.operands[1].value == 8 ? "st0" : "st1");
            if (li < 0)
                return vf::Result::pass();
            c.st = layout::write(li, c0.st, c0.expansion);
            c.st[flat::F_pc] = c0.st[flat::F_pc] + 2;
            c.opcode = c0.more_code[0];
            c.expansion = c0.more_code[1];
            c.more_code.clear();
            c.cycles = 1;
            prefixed = true;
        }
    }
    const optable::Info& info = optable::info(c.opcode);
    bool skip = false;
    std::string cls;
    State want = expected(c, skip, cls);
    if (skip) {
        vf::klass("out of model: " + info.name);
        vf::note(0, false);
        return vf::Result::pass();
    }
    icase::IResult r = sut().exec(c0);
    std::string where = info.form + " op=" + vf::hex(c.opcode) + " x=" + vf::hex(c.expansion) + (prefixed ? " after mov ##" + vf::hex(c0.expansion) + ", " + (optable::info(c0.opcode).operands[1].value == 8 ? "st0" : "st1") : "");
    if (prefixed)
        vf::klass("accumulator extension written through st0 / st1 first");
    if (r.outcome != 0)
        return vf::Result::fail("C03:outcome:" + info.name, "instruction did not complete (" + r.what + ") for " + where);
    if (!(r.after == want)) {
        std::string d = flat::diff(r.after, want);
        return vf::Result::fail("C03:" + info.name + ":" + d.substr(0, d.find(':')), "result differs from exact arithmetic (got vs expected) " + d + " for " + where);
    }
    if (!r.writes.empty())
        return vf::Result::fail("C03:memwrite:" + info.name, "an ALU instruction wrote memory at " + vf::hex(r.writes.begin()->first) + " for " + where);
    // classes
    bool changed = false;
    for (int f : std::initializer_list<int>{flat::F_a + 0, flat::F_a + 1, flat::F_b + 0, flat::F_b + 1, flat::F_fz, flat::F_fm, flat::F_fe, flat::F_fn,
                                            flat::F_fc0, flat::F_fv, flat::F_fvl, flat::F_flm})
        if (c.st[f] != want[f])
            changed = true;
    if (!cls.empty())
        vf::klass(cls);
    if (want[flat::F_fv])
        vf::klass("overflow at bit 39");
    if (want[flat::F_fc0] && !c.st[flat::F_fc0])
        vf::klass("carry/borrow produced");
    if (want[flat::F_flm] && !c.st[flat::F_flm])
        vf::klass("write-side saturation taken");
    for (int f : {flat::F_a + 0, flat::F_a + 1, flat::F_b + 0, flat::F_b + 1})
        if (want[f] != c.st[f] && ((int64_t)want[f] == 0x7FFFFFFFll || (int64_t)want[f] == -(int64_t)0x80000000ll))
            vf::klass("result exactly at a 32-bit bound");
    vf::klass("form " + info.name);
    uint64_t h = vf::hash_bytes(c.st.v, sizeof c.st.v, c.opcode * 65536ull + c.expansion);
    vf::note(h, changed);
    if (changed && (h % 20000) == 0)
        vf::sample(where + " | a0=" + vf::hex(c.st[flat::F_a] & 0xFFFFFFFFFFull) + " a1=" + vf::hex(c.st[flat::F_a + 1] & 0xFFFFFFFFFFull) + " b0=" +
                   vf::hex(c.st[flat::F_b] & 0xFFFFFFFFFFull) + " sata=" + vf::hex(c.st[flat::F_sata]) + " -> " + flat::diff(c.st, want, 8));
    return vf::Result::pass();
}

} // namespace

int main(int argc, char** argv) {
    vf::init(argc, argv, "C03");
    vf::Property<icase::ICase> p;
    p.name = "alu_model";
    p.gen = [] {
        using namespace rc;
        return gen::map(gen::tuple(gen::resize(100, gen::arbitrary<uint64_t>()), gen::resize(100, gen::arbitrary<uint32_t>()), vf::u16b()),
                        [](std::tuple<uint64_t, uint32_t, uint16_t> t) { return build(Seed{std::get<0>(t), std::get<1>(t), std::get<2>(t)}); });
    };
    p.check = check;
    p.encode = icase::encode;
    p.decode = icase::decode;
    p.minimise = icase::minimise;
    vf::run(p);
    if (vf::ctx().replay.empty())
{
        vf::klass("first words in the ALU domain", domain().size());
        vf::klass("(form, operation) strata", strata().size());
    }
    return vf::finish();
}
