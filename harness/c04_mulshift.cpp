// C04 -- multiplier products and barrel-shifter results follow exact arithmetic.
// Every encoding of the multiply / multiply-accumulate / product-read / product-sum / shift / move-and-shift /
// rotate / normalize / exponent families (register and [Rn] addressed forms) x boundary-biased factors, products,
// accumulators and shift amounts x product-shift, half-word and shift modes, executed on the real interpreter and
// compared field by field with the expected state built by the independent model ref_mul_shift.h.
#include <map>

#include "icase.h"
#include "imodel.h"
#include "optable.h"
#include "ref_mul_shift.h"
#include "vf.h"

namespace {

using flat::State;
using namespace ralu;
using imodel::cond_pass;

icase::Machine& sut() {
    static icase::Machine* m = new icase::Machine(ICASE_FNS(sut_));
    return *m;
}

enum MulOp { Mpy, Mpysu, Mac, Macus, Maa, Macuu, Macsu, Maasu };
const MulOp kMul2[4] = {Mpy, Mac, Maa, Macsu};
enum ModaOp { Shr, Shr4, Shl, Shl4, Ror, Rol, Clr, MReserved, Not, Neg, Rnd, Pacr, Clrr, Inc, Dec, Copy };
const ModaOp kModa3[8] = {Shr, Shr4, Shl, Shl4, Ror, Rol, Clr, Clrr};
enum AlmOp { Or, And, Xor, Add, Tst0, Tst1, Cmp, Sub, Msu, Addh, Addl, Subh, Subl, Sqr, Sqra, Cmpu };
enum SumBase { BZero, BAcc, BSv, BSvRnd };
const char* kRnOld[8] = {"r0", "r1", "r2", "r3", "r4", "r5", "r7", "y0"};

bool moda_shift(ModaOp op) {
    return op == Shr || op == Shr4 || op == Shl || op == Shl4 || op == Ror || op == Rol || op == Pacr;
}

bool in_scope(const optable::Info& i) {
    if (i.entry < 0)
        return false;
    const std::string& n = i.name;
    const std::string& f = i.form;
    if (n == "alm" || n == "alm_r6") {
        AlmOp op = (AlmOp)i.operands[0].value;
        return op == Msu || op == Sqr || op == Sqra;
    }
    if (n == "moda4")
        return moda_shift((ModaOp)i.operands[0].value);
    if (n == "moda3")
        return moda_shift(kModa3[i.operands[0].value & 7]);
    static const char* names[] = {"mul_y0", "mul_y0_r6", "mpyi", "mac_x1to0", "app", "add_p1", "sub_p1", "cmp_p1_to", "pacr1", "mov_p1_to",
                                  "mov_p0h_to", "mov_p0h_r6", "mov_p0", "clrp", "clrp0", "clrp1", "shfc", "shfi", "movs", "movs_r6_to", "movsi",
                                  "norm", "exp", "exp_r6", "sqr_sqr_add3", "sqr_mpysu_add3a"};
    for (const char* k : names)
        if (n == k)
            return f.find("ArRn") == std::string::npos && f.find("ArpRn") == std::string::npos;
    if (n == "mul" || n == "msu")
        return true;
    if (f == "add(Px,Bx)" || f == "sub(Px,Bx)" || f == "push(Px)" || f == "pop(Px)")
        return true;
    if (f == "mma(RegName,bool,bool,bool,bool,SumBase,bool,bool,bool,bool)")
        return true;
    if ((f == "mov(Register,Bx)" || f == "mov(Register,Register)") && std::string(kRegisterOperand[i.operands[0].value & 31]) == "p")
        return true;
    return false;
}

const std::vector<std::vector<uint16_t>>& strata() {
    static std::vector<std::vector<uint16_t>> g = [] {
        std::map<std::string, std::vector<uint16_t>> m;
        for (uint32_t w = 0; w < 0x10000; ++w) {
            const optable::Info& i = optable::info((uint16_t)w);
            if (!in_scope(i))
                continue;
            std::string key = i.form;
            if (i.name == "alm" || i.name == "alm_r6" || i.name == "moda4" || i.name == "moda3" || i.name == "mul" || i.name == "mul_y0" ||
                i.name == "mul_y0_r6")
                key += "#" + std::to_string(i.operands[0].value);
            m[key].push_back((uint16_t)w);
        }
        std::vector<std::vector<uint16_t>> v;
        for (auto& kv : m)
            v.push_back(kv.second);
        return v;
    }();
    return g;
}

struct Model : imodel::Model {
    bool mask_carry = false;        // fc0 not compared (|shift| == 40)
    bool mask_two_product = false;  // fc0 / fv / fvl of a two-product sum are not defined by the property
    explicit Model(const icase::ICase& cc) : imodel::Model(cc) {}

    // accumulate +/- (possibly aligned) product, as the multiply-accumulate forms do before launching the next product
    void accumulate(AccId d, int64_t product, bool sub) {
        write_arith(e, d, add_sub(e, s40(e[acc_field(d)]), product, sub));
    }
    void mul_generic(MulOp op, AccId d) {
        if (op != Mpy && op != Mpysu) {
            int64_t p = product_value(e, 0);
            if (op == Maa || op == Maasu) {
                p >>= 16; // aligned
                cls = "aligned (>>16) accumulate";
            }
            accumulate(d, p, false);
        }
        switch (op) {
        case Mpy:
        case Mac:
        case Maa:
            rmul::multiply(e, 0, true, true);
            break;
        case Mpysu:
        case Macsu:
        case Maasu:
            rmul::multiply(e, 0, false, true); // unsigned x, signed y
            break;
        case Macus:
            rmul::multiply(e, 0, true, false);
            break;
        case Macuu:
            rmul::multiply(e, 0, false, false);
            break;
        }
    }
    // base + (+/-)p0 + (+/-)p1 with optional >>16 alignment of either product
    void product_sum(SumBase base, AccId d, bool sub0, bool align0, bool sub1, bool align1) {
        int64_t a = product_value(e, 0), b = product_value(e, 1);
        if (align0)
            a >>= 16;
        if (align1)
            b >>= 16;
        int64_t c0 = 0;
        int16_t sv = (int16_t)(uint16_t)e[flat::F_sv];
        switch (base) {
        case BZero:
            c0 = 0;
            break;
        case BAcc:
            c0 = s40(e[acc_field(d)]);
            break;
        case BSv:
            c0 = (int64_t)sv * 65536;
            break;
        case BSvRnd:
            c0 = (int64_t)sv * 65536 + 0x8000; // (sv << 16) | 0x8000, low half of sv<<16 is zero
            break;
        }
        i128 r = (i128)c0 + (sub0 ? -(i128)a : (i128)a) + (sub1 ? -(i128)b : (i128)b);
        // the property does not define carry/overflow of a two-product sum (the source marks its own rule "is this
        // correct?"): value, z/m/e/n flags and saturation are checked, fc0/fv/fvl are not
        mask_two_product = true;
        write_arith(e, d, wrap40(r));
        cls = "two-product sum";
    }
    uint16_t reg16(const std::string& rn) { // RegToBus16 for non-accumulator-whole operands
        if (rn == "p")
            return (uint16_t)((uint64_t)product_value(e, 0) >> 16);
        bool ok;
        uint16_t v = read16(e, rn, ok);
        if (!ok)
            skip = true;
        return v;
    }
    void shift(int64_t v, int16_t amount, AccId d) {
        if (!rmul::shift40(e, v, amount, d))
            mask_carry = true;
        int a = amount;
        if (a >= 40 || a <= -40)
            cls = "|shift| >= 40";
        else if (a == 0)
            cls = "shift by 0";
    }
    void exp_of(int64_t v) {
        e[flat::F_sv] = rmul::exponent(v);
        if (v == 0 || v == -1)
            cls = "exp of 0 / -1";
    }
};

State expected(const icase::ICase& c, bool& skip, std::string& cls, bool& mask_carry, bool& mask_two) {
    const optable::Info info = optable::decode(c.opcode, c.expansion);
    Model m(c);
    const auto& o = info.operands;
    const std::string& f = info.form;
    const std::string& n = info.name;
    m.e[flat::F_pc] = c.st[flat::F_pc] + 1 + (info.expanded ? 1 : 0);
    auto page_addr = [&](uint64_t imm8) { return (uint16_t)((c.st[flat::F_page] << 8) | imm8); };
    if (f == "mul(MulOp#8,Rn,StepValue#4,Imm16,Ax)") {
        m.e[flat::F_y + 0] = m.rn_access((unsigned)o[1].value, (unsigned)o[2].value);
        m.e[flat::F_x + 0] = o[3].value;
        m.mul_generic((MulOp)o[0].value, ax(o[4].value));
    } else if (f == "mul_y0(MulOp#8,Rn,StepValue#4,Ax)") {
        m.e[flat::F_x + 0] = m.rn_access((unsigned)o[1].value, (unsigned)o[2].value);
        m.mul_generic((MulOp)o[0].value, ax(o[3].value));
    } else if (f == "mul_y0(MulOp#8,Register,Ax)") {
        std::string rn = kRegisterOperand[o[1].value & 31];
        if (rn == "pc")
            skip = true;
        else if (rn == "a0" || rn == "a1")
            m.e[flat::F_x + 0] = c.st[rn == "a0" ? flat::F_a : flat::F_a + 1] & 0xFFFF;
        else
            m.e[flat::F_x + 0] = m.reg16(rn);
        m.mul_generic((MulOp)o[0].value, ax(o[2].value));
    } else if (f == "mul(MulOp#8,R45,StepValue#4,R0123,StepValue#4,Ax)") {
        uint16_t y = m.rn_access((unsigned)o[1].value + 4, (unsigned)o[2].value);
        uint16_t x = m.rn_access((unsigned)o[3].value, (unsigned)o[4].value);
        m.e[flat::F_y + 0] = y;
        m.e[flat::F_x + 0] = x;
        m.mul_generic((MulOp)o[0].value, ax(o[5].value));
    } else if (f == "mul_y0_r6(MulOp#8,Ax)") {
        m.e[flat::F_x + 0] = c.st[flat::F_r + 6];
        m.mul_generic((MulOp)o[0].value, ax(o[1].value));
    } else if (f == "mul_y0(MulOp#4,MemImm8,Ax)") {
        m.e[flat::F_x + 0] = m.mem(page_addr(o[1].value));
        m.mul_generic(kMul2[o[0].value & 3], ax(o[2].value));
    } else if (f == "mpyi(Imm8s)") {
        m.e[flat::F_x + 0] = (uint16_t)(int16_t)(int8_t)o[0].value;
        rmul::multiply(m.e, 0, true, true);
    } else if (f == "msu(R45,StepValue#4,R0123,StepValue#4,Ax)") {
        uint16_t y = m.rn_access((unsigned)o[0].value + 4, (unsigned)o[1].value);
        uint16_t x = m.rn_access((unsigned)o[2].value, (unsigned)o[3].value);
        m.accumulate(ax(o[4].value), product_value(m.e, 0), true);
        m.e[flat::F_y + 0] = y;
        m.e[flat::F_x + 0] = x;
        rmul::multiply(m.e, 0, true, true);
    } else if (f == "msu(Rn,StepValue#4,Imm16,Ax)") {
        uint16_t y = m.rn_access((unsigned)o[0].value, (unsigned)o[1].value);
        m.accumulate(ax(o[3].value), product_value(m.e, 0), true);
        m.e[flat::F_y + 0] = y;
        m.e[flat::F_x + 0] = o[2].value;
        rmul::multiply(m.e, 0, true, true);
    } else if (f == "mac_x1to0(Ax)") {
        m.accumulate(ax(o[0].value), product_value(m.e, 0), false);
        m.e[flat::F_x + 0] = m.e[flat::F_x + 1];
        rmul::multiply(m.e, 0, true, true);
    } else if (n == "alm" || n == "alm_r6") {
        AlmOp op = (AlmOp)o[0].value;
        AccId d = ax(o.back().value);
        uint16_t v = 0;
        if (f == "alm(AlmOp#16,MemImm8,Ax)")
            v = m.mem(page_addr(o[1].value));
        else if (f == "alm(AlmOp#16,Rn,StepValue#4,Ax)")
            v = m.rn_access((unsigned)o[1].value, (unsigned)o[2].value);
        else if (f == "alm_r6(AlmOp#16,Ax)")
            v = (uint16_t)c.st[flat::F_r + 6];
        else { // Register
            std::string rn = kRegisterOperand[o[1].value & 31];
            if (rn == "pc" || rn == "p" || rn == "a0" || rn == "a1")
                skip = true; // the source documents 40-bit operands as undefined for msu/sqr/sqra
            else
                v = m.reg16(rn);
        }
        if (op == Msu) {
            m.accumulate(d, product_value(m.e, 0), true);
            m.e[flat::F_x + 0] = v;
            rmul::multiply(m.e, 0, true, true);
        } else {
            if (op == Sqra)
                m.accumulate(d, product_value(m.e, 0), false);
            m.e[flat::F_x + 0] = m.e[flat::F_y + 0] = v;
            rmul::multiply(m.e, 0, true, true);
        }
    } else if (n == "app") {
        m.product_sum((SumBase)o[1].value, ab(o[0].value), o[2].value, o[3].value, o[4].value, o[5].value);
    } else if (f == "mma(RegName,bool,bool,bool,bool,SumBase,bool,bool,bool,bool)") {
        // RegName enum: a0=0 a1=4 b0=8 b1=12
        AccId d = o[0].value == 0 ? A0 : (o[0].value == 4 ? A1 : (o[0].value == 8 ? B0 : B1));
        if (!(o[0].value == 0 || o[0].value == 4 || o[0].value == 8 || o[0].value == 12))
            skip = true;
        m.product_sum((SumBase)o[5].value, d, o[6].value, o[7].value, o[8].value, o[9].value);
        std::swap(m.e[flat::F_x + 0], m.e[flat::F_x + 1]);
        rmul::multiply(m.e, 0, o[1].value, o[2].value);
        rmul::multiply(m.e, 1, o[3].value, o[4].value);
    } else if (f == "sqr_sqr_add3(Ab,Ab)" || f == "sqr_mpysu_add3a(Ab,Ab)") {
        uint64_t av = c.st[acc_field(ab(o[0].value))];
        bool mixed = n == "sqr_mpysu_add3a";
        m.product_sum(BAcc, ab(o[1].value), false, false, false, mixed);
        uint16_t hi = (uint16_t)(av >> 16), lo = (uint16_t)av;
        if (!mixed) {
            m.e[flat::F_x + 0] = m.e[flat::F_y + 0] = hi;
            m.e[flat::F_x + 1] = m.e[flat::F_y + 1] = lo;
            rmul::multiply(m.e, 0, true, true);
            rmul::multiply(m.e, 1, true, true);
        } else {
            m.e[flat::F_x + 0] = m.e[flat::F_y + 0] = m.e[flat::F_y + 1] = hi;
            m.e[flat::F_x + 1] = lo;
            rmul::multiply(m.e, 0, true, true);
            rmul::multiply(m.e, 1, false, true);
        }
    } else if (f == "add(Px,Bx)" || f == "sub(Px,Bx)") {
        m.accumulate(bx(o[1].value), product_value(c.st, (int)o[0].value), n == "sub");
        m.cls = "product read ps=" + std::to_string(c.st[flat::F_ps + o[0].value]);
    } else if (f == "add_p1(Ax)" || f == "sub_p1(Ax)") {
        m.accumulate(ax(o[0].value), product_value(c.st, 1), n == "sub_p1");
        m.cls = "product read ps=" + std::to_string(c.st[flat::F_ps + 1]);
    } else if (f == "cmp_p1_to(Ax)") {
        result_flags(m.e, add_sub(m.e, s40(c.st[acc_field(ax(o[0].value))]), product_value(c.st, 1), true));
    } else if (f == "pacr1(Ax)") {
        write_arith(m.e, ax(o[0].value), add_sub(m.e, product_value(c.st, 1), 0x8000, false));
    } else if (f == "mov_p1_to(Ab)") {
        write_arith(m.e, ab(o[0].value), product_value(c.st, 1));
    } else if (f == "mov(Register,Bx)") {
        write_arith(m.e, bx(o[1].value), product_value(c.st, 0));
    } else if (f == "mov(Register,Register)") {
        write_arith(m.e, (o[1].value & 1) ? A1 : A0, product_value(c.st, 0)); // destination selected by the low bit
    } else if (f == "mov_p0h_to(Bx)" || f == "mov_p0h_r6()" || f == "mov_p0h_to(Register)") {
        uint16_t v = (uint16_t)((uint64_t)product_value(c.st, 0) >> 16);
        if (f == "mov_p0h_r6()")
            m.e[flat::F_r + 6] = v;
        else if (f == "mov_p0h_to(Bx)")
            write_arith(m.e, bx(o[0].value), (int16_t)v);
        else
            skip = true; // arbitrary destination register: a move, not arithmetic
    } else if (f == "mov_p0(Ab)") {
        // read side of the accumulator saturates when sat == 0 (sets the limit flag), low 32 bits go to p0
        int64_t a = s40(c.st[acc_field(ab(o[0].value))]);
        if (c.st[flat::F_sat] == 0 && !fits32(a)) {
            m.e[flat::F_flm] = 1;
            a = a < 0 ? -(int64_t)0x80000000ll : 0x7FFFFFFFll;
        }
        rmul::product_from32(m.e, 0, (uint32_t)a);
    } else if (f == "clrp()" || f == "clrp0()" || f == "clrp1()") {
        if (f != "clrp1()")
            rmul::product_from32(m.e, 0, 0);
        if (f != "clrp0()")
            rmul::product_from32(m.e, 1, 0);
    } else if (f == "push(Px)" || f == "pop(Px)") {
        skip = true; // checked as an inverse pair in C08; the stack write is outside this model
    } else if (n == "moda4" || n == "moda3") {
        ModaOp op = n == "moda4" ? (ModaOp)o[0].value : kModa3[o[0].value & 7];
        AccId d = n == "moda4" ? ax(o[1].value) : bx(o[1].value);
        if (cond_pass(c.st, (unsigned)o[2].value)) {
            int64_t a = s40(c.st[acc_field(d)]);
            uint64_t pat = (uint64_t)a & 0xFFFFFFFFFFull;
            switch (op) {
            case Shr:
                m.shift(a, -1, d);
                break;
            case Shr4:
                m.shift(a, -4, d);
                break;
            case Shl:
                m.shift(a, 1, d);
                break;
            case Shl4:
                m.shift(a, 4, d);
                break;
            case Ror: { // rotate right through carry
                uint64_t r = (pat >> 1) | (c.st[flat::F_fc0] << 39);
                m.e[flat::F_fc0] = pat & 1;
                write_logic(m.e, d, wrap40((i128)r));
                m.cls = "rotate through carry";
                break;
            }
            case Rol: {
                uint64_t r = ((pat << 1) | c.st[flat::F_fc0]) & 0xFFFFFFFFFFull;
                m.e[flat::F_fc0] = (pat >> 39) & 1;
                write_logic(m.e, d, wrap40((i128)r));
                m.cls = "rotate through carry";
                break;
            }
            case Pacr:
                write_arith(m.e, d, add_sub(m.e, product_value(c.st, 0), 0x8000, false));
                break;
            default:
                skip = true;
            }
        }
    } else if (f == "shfc(Ab,Ab,CondValue)") {
        if (cond_pass(c.st, (unsigned)o[2].value))
            m.shift(s40(c.st[acc_field(ab(o[0].value))]), (int16_t)(uint16_t)c.st[flat::F_sv], ab(o[1].value));
    } else if (f == "shfi(Ab,Ab,Imm6s)") {
        unsigned i6 = (unsigned)o[2].value & 0x3F;
        m.shift(s40(c.st[acc_field(ab(o[0].value))]), (int16_t)((i6 & 0x20) ? (int)i6 - 64 : (int)i6), ab(o[1].value));
    } else if (n == "movs" || n == "movs_r6_to") {
        uint16_t v = 0;
        AccId d = n == "movs" ? ab(o.back().value) : ax(o[0].value);
        if (f == "movs(MemImm8,Ab)")
            v = m.mem(page_addr(o[0].value));
        else if (f == "movs(Rn,StepValue#4,Ab)")
            v = m.rn_access((unsigned)o[0].value, (unsigned)o[1].value);
        else if (f == "movs(Register,Ab)") {
            std::string rn = kRegisterOperand[o[0].value & 31];
            if (rn == "pc")
                skip = true;
            else if (rn == "a0" || rn == "a1")
                v = (uint16_t)c.st[rn == "a0" ? flat::F_a : flat::F_a + 1];
            else
                v = m.reg16(rn);
        } else
            v = (uint16_t)c.st[flat::F_r + 6];
        m.shift((int16_t)v, (int16_t)(uint16_t)c.st[flat::F_sv], d);
    } else if (f == "movsi(RnOld,Ab,Imm5s)") {
        bool ok;
        uint16_t v = read16(c.st, kRnOld[o[0].value & 7], ok);
        unsigned i5 = (unsigned)o[2].value & 0x1F;
        m.shift((int16_t)v, (int16_t)((i5 & 0x10) ? (int)i5 - 32 : (int)i5), ab(o[1].value));
    } else if (f == "norm(Ax,Rn,StepValue#4)") {
        if (c.st[flat::F_fn] == 0) {
            AccId d = ax(o[0].value);
            int64_t a = s40(c.st[acc_field(d)]);
            i128 exact = (i128)a * 2;
            bool ov = !fits40(exact);
            m.e[flat::F_fv] = ov;
            if (ov)
                m.e[flat::F_fvl] = 1;
            m.e[flat::F_fc0] = ((uint64_t)a >> 39) & 1;
            write_logic(m.e, d, wrap40(exact));
            unsigned rn = (unsigned)o[1].value;
            (void)m.rn_access(rn, (unsigned)o[2].value);
            m.skip = false; // norm only steps the register, it reads no memory (an MMIO address here is harmless)
            m.e[flat::F_fr] = m.e[flat::F_r + rn] == 0;
            m.cls = "normalize step taken";
        }
    } else if (n == "exp" || n == "exp_r6") {
        int64_t v = 0;
        bool store = f.size() > 4 && f.substr(f.size() - 4) == ",Ax)";
        if (f == "exp(Bx)" || f == "exp(Bx,Ax)")
            v = s40(c.st[acc_field(bx(o[0].value))]);
        else if (f == "exp(Rn,StepValue#4)" || f == "exp(Rn,StepValue#4,Ax)")
            v = (int64_t)(int32_t)((uint32_t)m.rn_access((unsigned)o[0].value, (unsigned)o[1].value) << 16);
        else if (f == "exp(Register)" || f == "exp(Register,Ax)") {
            std::string rn = kRegisterOperand[o[0].value & 31];
            if (rn == "pc")
                skip = true;
            else if (rn == "a0" || rn == "a1")
                v = s40(c.st[rn == "a0" ? flat::F_a : flat::F_a + 1]);
            else
                v = (int64_t)(int32_t)((uint32_t)m.reg16(rn) << 16);
        } else if (f == "exp_r6()" || f == "exp_r6(Ax)") {
            v = (int64_t)(int32_t)((uint32_t)c.st[flat::F_r + 6] << 16);
            store = f == "exp_r6(Ax)";
        } else
            skip = true;
        m.exp_of(v);
        if (store)
            m.e[acc_field(ax(o.back().value))] = (uint64_t)(int64_t)(int16_t)(uint16_t)m.e[flat::F_sv];
    } else
        skip = true;
    skip = skip || m.skip;
    cls = m.cls;
    mask_carry = m.mask_carry;
    mask_two = m.mask_two_product;
    return m.e;
}

struct Seed {
    uint64_t seed;
    uint32_t pick;
    uint16_t expansion;
};

icase::ICase build(const Seed& sd) {
    vf::Stream s(sd.seed);
    icase::ICase c;
    const auto& grp = strata()[(sd.pick >> 16) % strata().size()];
    c.opcode = grp[(sd.pick & 0xFFFF) % grp.size()];
    c.expansion = sd.expansion;
    c.st = icase::gen_state(s, 8);
    imodel::pin_plain(c.st);
    c.st[flat::F_pc] = 0x1000 + s.below(0x1000);
    if (s.chance(1, 2))
        c.st[flat::F_sata] = 0;
    c.st[flat::F_sv] = icase::gen_sv(s);
    // factor boundary values
    static const uint16_t fe[] = {0, 1, 0x7FFF, 0x8000, 0xFFFF, 0x00FF, 0x0100, 0x8001, 0xFF00, 0x0080};
    for (int i = 0; i < 2; ++i) {
        if (s.chance(1, 3))
            c.st[flat::F_x + i] = fe[s.below(sizeof fe / sizeof fe[0])];
        if (s.chance(1, 3))
            c.st[flat::F_y + i] = fe[s.below(sizeof fe / sizeof fe[0])];
        if (s.chance(1, 4)) { // products at the 33-bit edge
            static const uint32_t pe[] = {0, 1, 0xFFFFFFFFu, 0x7FFFFFFFu, 0x80000000u, 0xFFFE0001u, 0x40000000u, 0xC0000000u};
            c.st[flat::F_p + i] = pe[s.below(sizeof pe / sizeof pe[0])];
            c.st[flat::F_pe + i] = s.bits(1);
        }
    }
    c.pokes = icase::gen_pokes(s, c.st, c.opcode, c.expansion);
    return c;
}

vf::Result check(const icase::ICase& c) {
    const optable::Info& info = optable::info(c.opcode);
    bool skip = false, mask_carry = false, mask_two = false;
    std::string cls;
    State want = expected(c, skip, cls, mask_carry, mask_two);
    if (skip) {
        vf::klass("out of model: " + info.name);
        vf::note(0, false);
        return vf::Result::pass();
    }
    icase::IResult r = sut().exec(c);
    std::string where = info.form + " op=" + vf::hex(c.opcode) + " x=" + vf::hex(c.expansion) + " [sv=" + vf::hex(c.st[flat::F_sv]) + " s=" +
                        vf::hex(c.st[flat::F_s]) + " sata=" + vf::hex(c.st[flat::F_sata]) + " hwm=" + vf::hex(c.st[flat::F_hwm]) + " ps=" +
                        vf::hex(c.st[flat::F_ps]) + "," + vf::hex(c.st[flat::F_ps + 1]) + "]";
    if (r.outcome != 0)
        return vf::Result::fail("C04:outcome:" + info.name, "instruction did not complete (" + r.what + ") for " + where);
    State got = r.after;
    if (mask_carry) {
        got[flat::F_fc0] = want[flat::F_fc0] = 0;
        vf::klass("|shift| == 40 (carry not compared)");
    }
    if (mask_two)
        for (int f : std::initializer_list<int>{flat::F_fc0, flat::F_fv, flat::F_fvl})
            got[f] = want[f] = 0;
    if (!(got == want)) {
        std::string d = flat::diff(got, want);
        return vf::Result::fail("C04:" + info.name + ":" + d.substr(0, d.find(':')), "result differs from exact arithmetic (got vs expected) " + d + " for " + where);
    }
    if (!r.writes.empty())
        return vf::Result::fail("C04:memwrite:" + info.name, "instruction wrote memory at " + vf::hex(r.writes.begin()->first) + " for " + where);
    bool changed = false;
    for (int f = 0; f < flat::NFIELDS; ++f)
        if (f != flat::F_pc && c.st[f] != want[f])
            changed = true;
    if (!cls.empty())
        vf::klass(cls);
    for (int u = 0; u < 2; ++u)
        if (want[flat::F_p + u] != c.st[flat::F_p + u] && want[flat::F_pe + u] != ((want[flat::F_p + u] >> 31) & 1))
            vf::klass("product with pe != bit 31 (unsigned factors >= 2^31)");
    if (c.st[flat::F_hwm] != 0)
        vf::klass("half-word mode " + std::to_string(c.st[flat::F_hwm]));
    if (want[flat::F_flm] && !c.st[flat::F_flm])
        vf::klass("saturation taken");
    if (want[flat::F_fv] && (info.name.find("sh") != std::string::npos || info.name.find("movs") == 0))
        vf::klass("shift overflow");
    vf::klass("form " + info.name);
    uint64_t h = vf::hash_bytes(c.st.v, sizeof c.st.v, c.opcode * 65536ull + c.expansion);
    vf::note(h, changed);
    if (changed && (h % 20000) == 0)
        vf::sample(where + " | x0=" + vf::hex(c.st[flat::F_x]) + " y0=" + vf::hex(c.st[flat::F_y]) + " p0=" + vf::hex(c.st[flat::F_p]) + " a0=" +
                   vf::hex(c.st[flat::F_a] & 0xFFFFFFFFFFull) + " -> " + flat::diff(c.st, want, 8));
    return vf::Result::pass();
}

} // namespace

int main(int argc, char** argv) {
    vf::init(argc, argv, "C04");
    vf::Property<icase::ICase> p;
    p.name = "mul_shift_model";
    p.gen = [] {
        using namespace rc;
        return gen::map(gen::tuple(gen::resize(100, gen::arbitrary<uint64_t>()), gen::resize(100, gen::arbitrary<uint32_t>()), vf::u16b()),
                        [](std::tuple<uint64_t, uint32_t, uint16_t> t) { return build(Seed{std::get<0>(t), std::get<1>(t), std::get<2>(t)}); });
    };
    p.check = check;
    p.encode = icase::encode;
    p.decode = icase::decode;
    p.minimise = icase::minimise;
    vf::run(p);
    if (vf::ctx().replay.empty())
        vf::klass("(form, operation) strata", strata().size());
    return vf::finish();
}
