// C16 -- audio FIFO (BTDMP transmit side): every queued word is output once, in order, one frame per period.
// Histories of send/flush/enable/tick/skip on the real Teakra::Btdmp, compared after every op with
//  (1) a FIFO/frame-clock model written from the property statement, and
//  (2) a twin that performs k x Tick() wherever the first one performs Skip(k).
#include "vf.h"

#include <deque>

#include "btdmp.h"
#include "core_timing.h"
#include "crash.h"

namespace {

enum Kind : int { Send, Flush, Enable, Tick, Skip, NKIND };
const char* kKindName[] = {"send", "flush", "enable", "tick", "skip"};
struct Op {
    int kind = Tick;
    uint64_t arg = 0;
};
struct Case {
    uint32_t period = 4096;
    bool edge_words = false; // every third word sent is 0xFFFF / 0x0000 / 0x8000 / 0x7FFF instead of its serial tag
    std::vector<Op> ops;
};

/// the word sent for serial number n (tags are non-zero and increasing; edge values test that any 16-bit word is a word)
inline uint16_t word_of(uint16_t serial, bool edge_words) {
    static const uint16_t kEdge[4] = {0xFFFF, 0x0000, 0x8000, 0x7FFF};
    return edge_words && serial % 3 == 1 ? kEdge[(serial / 3) % 4] : serial;
}

struct Frame {
    int16_t l, r;
    bool operator==(const Frame& o) const {
        return l == o.l && r == o.r;
    }
};

struct Sut {
    Teakra::CoreTiming ct;
    Teakra::Btdmp b{ct};
    std::vector<Frame> frames;
    uint64_t irqs = 0;
    Sut() {
        b.SetAudioCallback([this](std::array<std::int16_t, 2> s) { frames.push_back({s[0], s[1]}); });
        b.SetInterruptHandler([this] { ++irqs; });
    }
};

struct Model {
    uint32_t period = 4096;
    uint32_t phase = 0; // cycles since the last frame (only advances while enabled)
    bool enabled = false;
    std::deque<uint16_t> q;
    std::vector<Frame> frames;
    uint64_t irqs = 0;
    uint64_t dropped = 0, flushed = 0;
    void send(uint16_t v) {
        if (q.size() == 16) {
            ++dropped; // writes to a full queue are dropped
            return;
        }
        q.push_back(v);
    }
    void flush() {
        flushed += q.size();
        q.clear(); // silently: no frame, no interrupt
    }
    void tick() {
        if (!enabled)
            return;
        if (++phase >= period) {
            phase = 0;
            int16_t s[2];
            for (int i = 0; i < 2; ++i) {
                if (q.empty()) {
                    s[i] = 0;
                } else {
                    s[i] = (int16_t)q.front();
                    q.pop_front();
                    if (q.empty())
                        ++irqs; // exactly when a pop empties the queue
                }
            }
            frames.push_back({s[0], s[1]});
        }
    }
    // cycles that may pass before the cycle in which the empty interrupt fires
    uint64_t free_cycles() const {
        if (!enabled || q.empty())
            return UINT64_MAX;
        uint64_t to_next = period - phase; // the tick that produces the next frame
        uint64_t frames_needed = (q.size() + 1) / 2;
        return to_next + (frames_needed - 1) * (uint64_t)period - 1;
    }
};

std::string encode(const Case& c) {
    std::string s = "period " + vf::hex(c.period) + "\n";
    if (c.edge_words)
        s += "edgewords 1\n";
    for (auto& op : c.ops)
        s += std::string(kKindName[op.kind]) + " " + vf::hex(op.arg) + "\n";
    return s;
}
Case decode(const std::string& text) {
    Case c;
    for (auto& l : vf::lines(text)) {
        auto t = vf::split_ws(l);
        if (t.size() < 2)
            continue;
        if (t[0] == "period") {
            c.period = (uint32_t)vf::unhex(t[1]);
            continue;
        }
        if (t[0] == "edgewords") {
            c.edge_words = vf::unhex(t[1]) != 0;
            continue;
        }
        Op op;
        for (int k = 0; k < NKIND; ++k)
            if (t[0] == kKindName[k])
                op.kind = k;
        op.arg = vf::unhex(t[1]);
        c.ops.push_back(op);
    }
    return c;
}

const uint64_t kMaxStep = 20000;

uint64_t resolve_ticks(uint64_t sel, const Model& m) {
    uint64_t mode = sel & 7, r = sel >> 3;
    uint64_t to_frame = m.period - m.phase; // ticks until (and including) the frame tick
    uint64_t k;
    switch (mode) {
    case 0:
        k = 1 + r % 6;
        break;
    case 1:
        k = to_frame - 1;
        break;
    case 2:
        k = to_frame;
        break;
    case 3:
        k = m.period;
        break;
    case 4:
        k = 2ull * m.period + 1;
        break;
    default:
        k = r % (2ull * m.period + 2);
        break;
    }
    return std::min<uint64_t>(k, kMaxStep);
}

uint64_t resolve_skip(uint64_t sel, uint64_t h, const Model& m) {
    uint64_t mode = sel & 7, r = sel >> 3;
    uint64_t cap = std::min<uint64_t>(3ull * m.period + 5, kMaxStep);
    if (h == UINT64_MAX)
        h = cap;
    uint64_t k;
    switch (mode) {
    case 0:
        k = 0;
        break;
    case 1:
        k = 1;
        break;
    case 2:
    case 3:
        k = h;
        break;
    case 4:
        k = h ? h - 1 : 0;
        break;
    default:
        k = r % (h + 1);
        break;
    }
    return std::min({k, h, cap});
}

rc::Gen<Case> genCase() {
    using namespace rc;
    auto periodGen = gen::weightedOneOf<uint32_t>({{8, gen::element<uint32_t>(1, 2, 3, 7, 1000, 4096, 65535)},
                                                   {3, gen::map(vf::range<uint32_t>(1, 40), [](uint32_t v) { return v; })},
                                                   {1, gen::map(vf::range<uint32_t>(1, 65536), [](uint32_t v) { return v; })}});
    auto sel = [](int lo, int hi) {
        return gen::map(gen::pair(vf::range<uint64_t>(lo, hi), vf::range<uint64_t>(0, 1u << 20)),
                        [](std::pair<uint64_t, uint64_t> p) { return p.first | (p.second << 3); });
    };
    auto opGen = gen::weightedOneOf<Op>({
        {8, gen::map(gen::weightedElement<uint64_t>({{10, 1}, {3, 2}, {2, 3}, {1, 5}, {1, 14}, {2, 16}, {1, 17}}), [](uint64_t n) { return Op{Send, n}; })},
        {1, gen::just(Op{Flush, 0})},
        {2, gen::map(gen::element<uint64_t>(1, 1, 1, 0), [](uint64_t v) { return Op{Enable, v}; })},
        {5, gen::map(sel(0, 6), [](uint64_t v) { return Op{Tick, v}; })},
        {6, gen::map(sel(0, 6), [](uint64_t v) { return Op{Skip, v}; })},
    });
    return gen::map(gen::tuple(periodGen, gen::container<std::vector<Op>>(opGen), gen::element<int>(0, 0, 1)), [](std::tuple<uint32_t, std::vector<Op>, int> p) {
        Case c;
        c.period = std::get<0>(p);
        c.ops = std::move(std::get<1>(p));
        c.edge_words = std::get<2>(p) != 0;
        return c;
    });
}

vf::Result check(const Case& cs) {
    Sut a, b;
    Model m;
    m.period = cs.period;
    a.b.SetTransmitPeriod((u16)cs.period);
    b.b.SetTransmitPeriod((u16)cs.period);
    uint16_t serial = 0;
    std::string trace = "P=" + std::to_string(cs.period) + " ";
    bool real_frame = false;
    uint64_t budget = 400000; // total single ticks per case (bounds cost, not a time limit)
    auto fail = [&](const std::string& sig, const std::string& what, size_t i) {
        return vf::Result::fail(sig, what + " at op " + std::to_string(i) + " (" + trace + ")");
    };
    auto compare = [&](size_t i, const std::string& ctx) -> vf::Result {
        if (a.frames.size() != m.frames.size())
            return fail("C16:model:frame-count:" + ctx, "frames delivered " + std::to_string(a.frames.size()) + " but model says " +
                                                            std::to_string(m.frames.size()),
                        i);
        for (size_t f = 0; f < m.frames.size(); ++f)
            if (!(a.frames[f] == m.frames[f]))
                return fail("C16:model:frame-content:" + ctx, "frame " + std::to_string(f) + " is (" + std::to_string(a.frames[f].l) + "," +
                                                                  std::to_string(a.frames[f].r) + ") but model says (" +
                                                                  std::to_string(m.frames[f].l) + "," + std::to_string(m.frames[f].r) + ")",
                            i);
        if (a.irqs != m.irqs)
            return fail("C16:model:irq:" + ctx, "empty interrupts " + std::to_string(a.irqs) + " but model says " + std::to_string(m.irqs), i);
        if ((a.b.GetTransmitEmpty() != 0) != m.q.empty())
            return fail("C16:model:empty-flag:" + ctx, "empty flag " + std::to_string(a.b.GetTransmitEmpty()) + " but queue holds " +
                                                           std::to_string(m.q.size()) + " words",
                        i);
        if ((a.b.GetTransmitFull() != 0) != (m.q.size() == 16))
            return fail("C16:model:full-flag:" + ctx, "full flag " + std::to_string(a.b.GetTransmitFull()) + " but queue holds " +
                                                          std::to_string(m.q.size()) + " words",
                        i);
        // twin
        if (a.frames.size() != b.frames.size() || !std::equal(a.frames.begin(), a.frames.end(), b.frames.begin()) || a.irqs != b.irqs ||
            a.b.GetTransmitEmpty() != b.b.GetTransmitEmpty() || a.b.GetTransmitFull() != b.b.GetTransmitFull() ||
            a.b.GetMaxSkip() != b.b.GetMaxSkip())
            return fail("C16:twin:" + ctx, "Skip(k) and k x Tick() diverged: frames " + std::to_string(a.frames.size()) + "/" +
                                               std::to_string(b.frames.size()) + " irqs " + std::to_string(a.irqs) + "/" +
                                               std::to_string(b.irqs) + " horizon " + std::to_string(a.b.GetMaxSkip()) + "/" +
                                               std::to_string(b.b.GetMaxSkip()),
                        i);
        return vf::Result::pass();
    };
    for (size_t i = 0; i < cs.ops.size(); ++i) {
        const Op& op = cs.ops[i];
        std::string ctx = kKindName[op.kind];
        try {
            switch (op.kind) {
            case Send: {
                uint64_t n = op.arg ? op.arg : 1;
                for (uint64_t j = 0; j < n; ++j) {
                    ++serial;
                    if (m.q.size() == 16)
                        vf::klass("send to a full queue (dropped)");
                    a.b.Send(word_of(serial, cs.edge_words));
                    b.b.Send(word_of(serial, cs.edge_words));
                    m.send(word_of(serial, cs.edge_words));
                }
                if (m.q.size() == 16)
                    vf::klass("queue full after send");
                trace += "send*" + std::to_string(n) + " ";
                break;
            }
            case Flush:
                if (!m.q.empty())
                    vf::klass("flush with non-empty queue");
                a.b.SetTransmitFlush(1);
                b.b.SetTransmitFlush(1);
                m.flush();
                trace += "flush ";
                break;
            case Enable:
                if (m.enabled != (op.arg != 0) && m.phase != 0)
                    vf::klass("enable toggled mid-period");
                a.b.SetTransmitEnable(op.arg & 1);
                b.b.SetTransmitEnable(op.arg & 1);
                m.enabled = op.arg & 1;
                trace += (op.arg & 1) ? "enable " : "disable ";
                break;
            case Tick: {
                uint64_t k = resolve_ticks(op.arg, m);
                if (k > budget)
                    k = budget;
                budget -= k;
                size_t f0 = m.frames.size();
                for (uint64_t j = 0; j < k; ++j) {
                    a.b.Tick();
                    b.b.Tick();
                    m.tick();
                }
                for (size_t f = f0; f < m.frames.size(); ++f) {
                    if (m.frames[f].l != 0)
                        real_frame = true;
                    if (m.frames[f].l != 0 && m.frames[f].r == 0)
                        vf::klass("frame with one real word and one zero");
                    if (m.frames[f].l == 0)
                        vf::klass("underrun frame (all zero)");
                }
                trace += "tick*" + std::to_string(k) + " ";
                break;
            }
            case Skip: {
                uint64_t h = a.b.GetMaxSkip();
                uint64_t free_cycles = m.free_cycles();
                if (h != UINT64_MAX && h > free_cycles)
                    return fail("C16:horizon:too-far", "reported horizon " + std::to_string(h) + " reaches over the empty interrupt (" +
                                                          std::to_string(free_cycles) + " interrupt-free cycles)",
                                i);
                if (h == UINT64_MAX && free_cycles != UINT64_MAX)
                    return fail("C16:horizon:too-far", "reported horizon is unbounded although the queue will run empty", i);
                uint64_t k = resolve_skip(op.arg, h, m);
                if (k > budget)
                    k = budget;
                budget -= k;
                size_t f0 = m.frames.size();
                uint64_t irq0 = b.irqs;
                a.b.Skip(k);
                for (uint64_t j = 0; j < k; ++j) {
                    b.b.Tick();
                    m.tick();
                }
                if (b.irqs != irq0)
                    return fail("C16:horizon:irq-inside", "the empty interrupt fired inside a permitted skip of " + std::to_string(k), i);
                size_t nf = m.frames.size() - f0;
                for (size_t f = f0; f < m.frames.size(); ++f)
                    if (m.frames[f].l != 0)
                        real_frame = true;
                std::string cls = std::string("skip k") + (k == 0 ? "=0" : (k == h ? "=h" : "<h")) + (m.enabled ? "" : " (disabled)") +
                                  (nf >= 2 ? " >=2 frames" : (nf == 1 ? " 1 frame" : " 0 frames"));
                vf::klass(cls);
                if (nf && (m.q.size() & 1))
                    vf::klass("odd queue length after a skip with frames");
                ctx = std::string("skip") + (k == 0 ? "0" : "k") + (nf ? ":frames" : ":noframe");
                trace += "skip(" + std::to_string(k) + "/h=" + (h == UINT64_MAX ? std::string("inf") : std::to_string(h)) + ") ";
                break;
            }
            }
        } catch (const TeakraVerifAssertFailure& e) {
            return fail(std::string("C16:assert:") + e.expression, std::string("assertion ") + e.expression + " fired on an in-contract operation", i);
        }
        vf::Result r = compare(i, ctx);
        if (!r.ok)
            return r;
    }
    // conservation: drain what is left (only for short periods) and account for every word sent
    if (cs.edge_words)
        vf::klass("history with edge-valued words (0xFFFF, 0, 0x8000, 0x7FFF)");
    if (cs.period <= 1024 && !cs.edge_words) { // (the order / count bookkeeping below relies on non-zero increasing tags)
        a.b.SetTransmitEnable(1);
        m.enabled = true;
        for (int guard = 0; guard < 9 * 1024 + 10 && !m.q.empty(); ++guard) {
            a.b.Tick();
            m.tick();
        }
        std::vector<uint16_t> delivered;
        for (auto& f : a.frames) {
            if (f.l)
                delivered.push_back((uint16_t)f.l);
            if (f.r)
                delivered.push_back((uint16_t)f.r);
        }
        for (size_t j = 1; j < delivered.size(); ++j)
            if (delivered[j] <= delivered[j - 1])
                return fail("C16:conservation:order", "words delivered out of order or twice: " + std::to_string(delivered[j - 1]) + " then " +
                                                          std::to_string(delivered[j]),
                            cs.ops.size());
        if (delivered.size() + m.dropped + m.flushed != serial)
            return fail("C16:conservation:count", std::to_string(serial) + " words sent, " + std::to_string(delivered.size()) + " delivered, " +
                                                      std::to_string(m.dropped) + " dropped, " + std::to_string(m.flushed) + " flushed",
                        cs.ops.size());
        if (a.b.GetTransmitEmpty() == 0)
            return fail("C16:conservation:not-empty", "queue did not drain", cs.ops.size());
    }
    if (cs.period == 1)
        vf::klass("period 1");
    std::string enc = encode(cs);
    vf::note(vf::hash_str(enc), real_frame);
    if (real_frame && cs.ops.size() <= 10)
        vf::sample(trace);
    return vf::Result::pass();
}

} // namespace

// ---- the audio port next to a timer on one CoreTiming: the bulk advance as the core uses it -------------------------------
// CoreTiming::Skip(max) must leave the port (frames delivered, flags, interrupts, later frame times) exactly where that many
// CoreTiming::Tick() calls leave the twin -- also while the transmitter runs with an empty queue (a silent frame per period).
#include "timer.h"
struct POp {
    int kind = 0; // 0 send n words, 1 enable/disable, 2 tick n, 3 CoreTiming::Skip(max), 4 flush, 5 restart the companion timer
    uint64_t a = 0;
};
struct PCase {
    uint32_t period = 100;
    bool no_sink = false; // no audio callback installed (the second port behind the facade never has one): queue, flags and interrupts behave the same
    std::vector<POp> ops;
};
struct PairSut {
    Teakra::CoreTiming ct;
    Teakra::Timer tm{ct};
    Teakra::Btdmp b{ct};
    std::vector<Frame> frames;
    uint64_t irqs = 0, tirqs = 0, now = 0;
    explicit PairSut(bool sink) {
        if (sink)
            b.SetAudioCallback([this](std::array<std::int16_t, 2> s) {
                frames.push_back({s[0], s[1]}); // (when inside a bulk advance a frame falls is not observable; how many per operation is)
            });
        b.SetInterruptHandler([this] { ++irqs; });
        tm.SetInterruptHandler([this] { ++tirqs; });
    }
};
std::string pencode(const PCase& c) {
    std::string s = "period " + vf::hex(c.period) + "\nnosink " + vf::hex(c.no_sink) + "\n";
    for (auto& op : c.ops)
        s += "p " + vf::hex(op.kind) + " " + vf::hex(op.a) + "\n";
    return s;
}
PCase pdecode(const std::string& text) {
    PCase c;
    for (auto& l : vf::lines(text)) {
        auto t = vf::split_ws(l);
        if (t.size() >= 2 && t[0] == "period")
            c.period = std::max<uint32_t>(1, (uint32_t)vf::unhex(t[1]) & 0xFFFF);
        else if (t.size() >= 2 && t[0] == "nosink")
            c.no_sink = vf::unhex(t[1]) != 0;
        else if (t.size() >= 3 && t[0] == "p") {
            POp op;
            op.kind = (int)(vf::unhex(t[1]) % 6);
            op.a = vf::unhex(t[2]);
            c.ops.push_back(op);
        }
    }
    return c;
}
vf::Result pcheck(const PCase& cs) {
    PairSut A(!cs.no_sink), B(!cs.no_sink);
    if (cs.no_sink)
        vf::klass("pair: port without an audio callback");
    for (PairSut* s : {&A, &B}) {
        s->b.SetTransmitPeriod((u16)cs.period);
        s->tm.count_mode = Teakra::Timer::CountMode::FreeRunning;
    }
    std::string trace = "period " + std::to_string(cs.period) + ": ";
    uint16_t serial = 1;
    bool nontrivial = false;
    auto fail = [&](const std::string& sig, const std::string& what, size_t i) {
        return vf::Result::fail(sig, what + " at op " + std::to_string(i) + " (" + trace + ")");
    };
    for (size_t i = 0; i < cs.ops.size(); ++i) {
        const POp& op = cs.ops[i];
        try {
            switch (op.kind) {
            case 0:
                for (uint64_t k = 0; k < 1 + op.a % 5; ++k, ++serial) {
                    A.b.Send(word_of(serial, (op.a >> 8) & 1));
                    B.b.Send(word_of(serial, (op.a >> 8) & 1));
                }
                trace += "send*" + std::to_string(1 + op.a % 5) + " ";
                break;
            case 1:
                A.b.SetTransmitEnable(op.a % 4 != 0);
                B.b.SetTransmitEnable(op.a % 4 != 0);
                trace += std::string("enable=") + (op.a % 4 != 0 ? "1 " : "0 ");
                break;
            case 2:
                for (uint64_t k = 0; k < 1 + op.a % 7; ++k) {
                    ++A.now;
                    A.ct.Tick();
                    ++B.now;
                    B.ct.Tick();
                }
                trace += "tick*" + std::to_string(1 + op.a % 7) + " ";
                break;
            case 3: {
                uint64_t max = op.a % 3 == 0 ? op.a % 5 : (op.a % 3 == 1 ? op.a % (4 * (uint64_t)cs.period + 1) : op.a % 40);
                bool empty_running = A.b.GetTransmitEnable() && A.b.GetTransmitEmpty();
                uint64_t k = A.ct.Skip(max);
                A.now += k;
                trace += "skip(max=" + std::to_string(max) + ")=" + std::to_string(k) + " ";
                if (k > max)
                    return fail("C16:coretiming:k", "CoreTiming::Skip(" + std::to_string(max) + ") returned " + std::to_string(k), i);
                for (uint64_t j = 0; j < k; ++j) {
                    ++B.now;
                    B.ct.Tick();
                }
                if (k >= 1) {
                    nontrivial = true;
                    vf::klass(empty_running ? "pair: bulk advance while transmitting with an empty queue" : "pair: bulk advance");
                }
                break;
            }
            case 4:
                A.b.SetTransmitFlush(1);
                B.b.SetTransmitFlush(1);
                trace += "flush ";
                break;
            default:
                A.tm.Restart();
                B.tm.Restart();
                trace += "timer-restart ";
                break;
            }
        } catch (const TeakraVerifAssertFailure& e) {
            return fail("C16:coretiming:assert:" + std::string(e.expression), std::string("assertion ") + e.expression + " on an in-contract operation", i);
        }
        if (A.frames.size() != B.frames.size() || !(A.frames == B.frames) || A.irqs != B.irqs || A.tirqs != B.tirqs ||
            A.b.GetTransmitEmpty() != B.b.GetTransmitEmpty() || A.b.GetTransmitFull() != B.b.GetTransmitFull() || A.tm.counter != B.tm.counter)
            return fail("C16:coretiming:twin", "after a bulk advance through CoreTiming the port differs from the ticked twin: " + std::to_string(A.frames.size()) + " vs " +
                                                   std::to_string(B.frames.size()) + " frames, interrupts " + std::to_string(A.irqs) + " vs " + std::to_string(B.irqs) +
                                                   ", empty " + std::to_string(A.b.GetTransmitEmpty()) + " vs " + std::to_string(B.b.GetTransmitEmpty()), i);
    }
    vf::note(vf::hash_str(pencode(cs)), nontrivial);
    return vf::Result::pass();
}
rc::Gen<PCase> genPCase() {
    using namespace rc;
    auto opGen = gen::map(gen::pair(gen::weightedElement<int>({{3, 0}, {2, 1}, {2, 2}, {6, 3}, {1, 4}, {1, 5}}), gen::resize(100, gen::arbitrary<uint64_t>())),
                          [](std::pair<int, uint64_t> p) { return POp{p.first, p.second}; });
    return gen::map(gen::tuple(gen::element<uint32_t>(1, 2, 3, 7, 16, 100, 100, 1000, 4096), gen::container<std::vector<POp>>(opGen), vf::range<unsigned>(0, 4)),
                    [](std::tuple<uint32_t, std::vector<POp>, unsigned> p) {
        PCase c;
        c.period = std::get<0>(p);
        c.ops = std::get<1>(p);
        c.no_sink = std::get<2>(p) == 0;
        c.ops.insert(c.ops.begin(), POp{1, 1}); // enabled from the start
        return c;
    });
}

// ---- both ports behind the facade: MMIO wiring, the idle loop's fast-forward, the ICU lines ---------------------------------------
#include "register.h"
#include "teakra/teakra.h"
struct FOp {
    int kind = 0; // 0 send n words to a port, 1 flush a port, 2 enable / disable a port, 3 run
    unsigned port = 0;
    uint64_t a = 0;
};
using FCase = std::vector<FOp>;
std::string fencode(const FCase& c) {
    std::string s;
    for (auto& op : c)
        s += "f " + vf::hex(op.kind) + " " + vf::hex(op.port) + " " + vf::hex(op.a) + "\n";
    return s;
}
FCase fdecode(const std::string& text) {
    FCase c;
    for (auto& l : vf::lines(text)) {
        auto t = vf::split_ws(l);
        if (t.size() < 4 || t[0] != "f")
            continue;
        FOp op;
        op.kind = (int)(vf::unhex(t[1]) % 4);
        op.port = (unsigned)vf::unhex(t[2]) & 1;
        op.a = vf::unhex(t[3]);
        c.push_back(op);
    }
    return c;
}
vf::Result fcheck(const FCase& cs) {
    static Teakra::Teakra* inst = new Teakra::Teakra(Teakra::UserConfig{});
    static std::vector<Frame>* sink = new std::vector<Frame>;
    static bool wired = false;
    Teakra::Teakra& t = *inst;
    if (!wired) {
        t.SetAudioCallback([](std::array<std::int16_t, 2> s) { sink->push_back({s[0], s[1]}); });
        wired = true;
    }
    t.Reset();
    sink->clear();
    t.ProgramWrite(0, 0x57F0); // brr -1: the DSP idles, so Run() fast-forwards through the ports' horizons
    t.GetRegisterState().pc = 0;
    t.MMIOWrite(0x202, 0xFFFF);
    Model m[2];
    uint16_t serial = 0x100;
    std::string trace;
    bool nontrivial = false;
    auto fail = [&](const std::string& sig, const std::string& what, size_t i) {
        return vf::Result::fail(sig, what + " at op " + std::to_string(i) + " (" + trace + ")");
    };
    for (size_t i = 0; i < cs.size(); ++i) {
        const FOp& op = cs[i];
        const uint16_t base = (uint16_t)(0x80 * op.port);
        uint64_t irq0[2] = {m[0].irqs, m[1].irqs};
        t.MMIOWrite(0x202, 0x0800); // acknowledge the audio line: the pending bit then shows this operation's interrupts
        switch (op.kind) {
        case 0:
            for (uint64_t k = 0; k < 1 + op.a % 6; ++k, ++serial) {
                t.MMIOWrite(0x2C6 + base, word_of(serial, (op.a >> 8) & 1));
                m[op.port].send(word_of(serial, (op.a >> 8) & 1));
            }
            trace += "send" + std::to_string(op.port) + "*" + std::to_string(1 + op.a % 6) + " ";
            break;
        case 1:
            t.MMIOWrite(0x2CA + base, 1);
            m[op.port].flush();
            trace += "flush" + std::to_string(op.port) + " ";
            break;
        case 2:
            t.MMIOWrite(0x2BE + base, (uint16_t)(op.a % 4 != 0));
            m[op.port].enabled = op.a % 4 != 0;
            trace += "enable" + std::to_string(op.port) + "=" + std::to_string(op.a % 4 != 0) + " ";
            break;
        default: {
            unsigned n = (unsigned)(op.a % 3 == 0 ? 1 + op.a % 50 : (op.a % 3 == 1 ? 4000 + op.a % 300 : 1 + op.a % 13000));
            t.Run(n);
            for (unsigned k = 0; k < n; ++k) {
                m[0].tick();
                m[1].tick();
            }
            trace += "run(" + std::to_string(n) + ") ";
            if (n >= 4096)
                nontrivial = true;
            break;
        }
        }
        if (sink->size() != m[0].frames.size() || !std::equal(sink->begin(), sink->end(), m[0].frames.begin()))
            return fail("C16:facade:frames", "port 0 delivered " + std::to_string(sink->size()) + " frames, the model " + std::to_string(m[0].frames.size()) +
                                                 (sink->size() == m[0].frames.size() ? " (contents differ)" : ""), i);
        uint16_t pending = t.MMIORead(0x200);
        for (unsigned p = 0; p < 2; ++p) {
            uint16_t st = t.MMIORead((uint16_t)(0x2C2 + 0x80 * p));
            bool full = (st >> 3) & 1, empty = (st >> 4) & 1;
            if (full != (m[p].q.size() == 16) || empty != m[p].q.empty())
                return fail("C16:facade:flags:port" + std::to_string(p), "port " + std::to_string(p) + " status reads full=" + std::to_string(full) + " empty=" +
                                                                              std::to_string(empty) + " but its queue holds " + std::to_string(m[p].q.size()) + " words", i);
        }
        // (both ports raise ICU line 0xB in this emulator)
        bool irq = (pending >> 0xB) & 1, want_irq = m[0].irqs != irq0[0] || m[1].irqs != irq0[1];
        if (irq != want_irq)
            return fail("C16:facade:irq", irq ? "the audio interrupt (ICU line 0xB) was raised although no pop emptied a queue"
                                              : "no audio interrupt (ICU line 0xB) although a pop emptied a queue", i);
    }
    vf::klass("facade: both ports through MMIO");
    vf::note(vf::hash_str(fencode(cs)), nontrivial);
    return vf::Result::pass();
}
rc::Gen<FCase> genFCase() {
    using namespace rc;
    auto opGen = gen::map(gen::tuple(gen::weightedElement<int>({{4, 0}, {1, 1}, {2, 2}, {4, 3}}), vf::range<unsigned>(0, 2), gen::resize(100, gen::arbitrary<uint64_t>())),
                          [](std::tuple<int, unsigned, uint64_t> p) { return FOp{std::get<0>(p), std::get<1>(p), std::get<2>(p)}; });
    return gen::map(gen::container<FCase>(opGen), [](FCase c) {
        c.insert(c.begin(), FOp{2, 0, 1});
        c.insert(c.begin(), FOp{2, 1, 1}); // both ports enabled from the start (a later op may disable one)
        return c;
    });
}

int main(int argc, char** argv) {
    vf::init(argc, argv, "C16");
    vf::Property<Case> p;
    p.name = "btdmp_history";
    p.gen = genCase;
    p.check = check;
    p.encode = encode;
    p.decode = decode;
    p.max_size = 120;
    p.share = 0.7;
    vf::run(p);

    vf::Property<PCase> q;
    q.name = "core_timing_btdmp";
    q.gen = genPCase;
    q.check = pcheck;
    q.encode = pencode;
    q.decode = pdecode;
    q.max_size = 60;
    q.share = 0.2;
    vf::run(q);

    vf::Property<FCase> f;
    f.name = "btdmp_facade";
    f.gen = genFCase;
    f.check = fcheck;
    f.encode = fencode;
    f.decode = fdecode;
    f.max_size = 30;
    f.share = 0.1;
    vf::run(f);
    return vf::finish();
}
