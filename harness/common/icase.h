// icase.h -- "one instruction from one machine state" cases: generation (deterministic expansion of a
// rapidcheck-generated seed), execution on a core shim, text codec and a field-wise reducer.
#pragma once
#include <algorithm>
#include <map>
#include <string>
#include <vector>

#include "flat_state.h"
#include "vf.h"

namespace icase {

struct ShimFns {
    void* (*new_core)();
    void (*set_state)(void*, const flat::State*);
    void (*get_state)(void*, flat::State*);
    uint8_t* (*mem)(void*);
    void (*run)(void*, unsigned, ShimRunInfo*);
    void (*signal_interrupt)(void*, unsigned);
    void (*signal_vectored)(void*, uint32_t, int);
    void (*log_begin)(void*);
    const ShimAccess* (*log_end)(void*, uint32_t*);
    int (*decode_info)(uint16_t, char*, int);
    void (*set_mmio_base)(void*, uint16_t);
    void (*load_vector)(void*, const void*);
    int (*vector_size)();
    void (*post_case)(void*);
    void (*pseudo_set)(void*, int, uint16_t);
    uint16_t (*pseudo_get)(void*, int);
};
#define ICASE_FNS(P)                                                                                                   \
    icase::ShimFns {                                                                                                   \
        P##new_core, P##set_state, P##get_state, P##mem, P##run, P##signal_interrupt, P##signal_vectored,              \
            P##log_begin, P##log_end, P##decode_info, P##set_mmio_base, P##load_vector, P##vector_size, P##post_case, P##pseudo_set, P##pseudo_get                \
    }

inline uint16_t base_word(uint32_t word_addr) {
    return (uint16_t)(vf::mix64(0xC0FFEEull * 65537 + word_addr) >> 17);
}

struct Poke {
    uint32_t addr; // word address in shared memory (data word a = 0x20000 + a)
    uint16_t val;
};

struct ICase {
    uint16_t opcode = 0, expansion = 0;
    flat::State st = flat::reset_state();
    std::vector<Poke> pokes;
    unsigned irq_mask = 0; // bit i: SignalInterrupt(i) before the run; bit 3: vectored
    uint32_t vaddr = 0;
    unsigned vctx = 0;
    unsigned cycles = 1;
    std::vector<uint16_t> more_code; // further program words following the instruction (multi-instruction cases)
    std::string tag;                 // free-form: which relation a multi-instruction case is about
};

struct IResult {
    int outcome = 0;
    std::string what;
    int oob = 0;
    flat::State after;
    std::vector<ShimAccess> log;
    std::map<uint32_t, uint16_t> writes; // address -> final value, for every in-range write
};

struct Machine {
    ShimFns f;
    void* core = nullptr;
    uint8_t* mem = nullptr;
    std::vector<uint32_t> dirty;
    explicit Machine(const ShimFns& fns, uint16_t mmio_base = 0xFFFF) : f(fns) {
        core = f.new_core();
        mem = f.mem(core);
        for (uint32_t w = 0; w < 0x40000; ++w)
            put(w, base_word(w));
        f.set_mmio_base(core, mmio_base);
    }
    uint16_t get(uint32_t w) const {
        return (uint16_t)(mem[2 * w] | (mem[2 * w + 1] << 8));
    }
    void put(uint32_t w, uint16_t v) {
        mem[2 * w] = (uint8_t)v;
        mem[2 * w + 1] = (uint8_t)(v >> 8);
    }
    void poke(uint32_t w, uint16_t v) {
        w &= 0x3FFFF;
        put(w, v);
        dirty.push_back(w);
    }
    void restore() {
        for (uint32_t w : dirty)
            put(w, base_word(w));
        dirty.clear();
    }
    /// set up, run, observe, and put the memory image back
    IResult exec(const ICase& c, bool keep_memory = false) {
        IResult r;
        f.set_state(core, &c.st);
        for (const Poke& p : c.pokes)
            poke(p.addr, p.val);
        uint32_t pc = (uint32_t)c.st[flat::F_pc];
        poke(pc, c.opcode);
        poke(pc + 1, c.expansion);
        for (size_t i = 0; i < c.more_code.size(); ++i)
            poke(pc + 2 + (uint32_t)i, c.more_code[i]);
        for (unsigned i = 0; i < 3; ++i)
            if (c.irq_mask & (1u << i))
                f.signal_interrupt(core, i);
        // a pending vectored request (ipv) always comes with a latched address: keep that well-formedness
        if ((c.irq_mask & 8) || c.st[flat::F_ipv])
            f.signal_vectored(core, c.vaddr & 0x3FFFF, (int)c.vctx);
        ShimRunInfo info{};
        f.log_begin(core);
        f.run(core, c.cycles, &info);
        uint32_t n = 0;
        const ShimAccess* log = f.log_end(core, &n);
        r.log.assign(log, log + n);
        r.outcome = info.outcome;
        r.what = info.what;
        r.oob = info.oob;
        f.get_state(core, &r.after);
        for (const ShimAccess& a : r.log)
            if (a.write && !a.oob) {
                r.writes[a.addr] = get(a.addr);
                dirty.push_back(a.addr);
            }
        if (!keep_memory)
            restore();
        f.post_case(core);
        // drain interrupt latches that the run may have left set (Run moves them into ip at the top of a cycle;
        // a run that threw before doing so would leak them into the next case)
        return r;
    }
};

// ---- generation ----------------------------------------------------------------------------------------
inline uint64_t gen_acc40(vf::Stream& s) {
    static const uint64_t edges[] = {0, 1, 0xFFFFFFFFFFull, 0x7FFFFFFFull, 0x80000000ull, 0xFF80000000ull, 0xFF7FFFFFFFull,
                                     0x7FFFFFFFFFull, 0x8000000000ull, 0x8000ull, 0x7FFFull, 0xFFFFull, 0x10000ull,
                                     0x100000000ull, 0xFFFFFFFFull, 0x7FFF8000ull, 0x7FFF7FFFull, 0xFF7FFF8000ull};
    uint64_t v;
    switch (s.below(10)) {
    case 0:
    case 1:
        v = edges[s.below(sizeof edges / sizeof edges[0])];
        break;
    case 2:
        v = edges[s.below(sizeof edges / sizeof edges[0])] + s.below(5) - 2;
        break;
    case 3:
        v = s.bits(16);
        break;
    case 4:
        v = s.bits(16); // sign-extended 16 bit
        if (v & 0x8000)
            v |= 0xFFFFFF0000ull;
        break;
    case 5:
        v = s.bits(32);
        break;
    case 6:
        v = s.bits(32);
        if (v & 0x80000000ull)
            v |= 0xFF00000000ull; // sign-extended 32 bit
        break;
    case 7: { // +-2^k +- small
        unsigned k = (unsigned)s.below(40);
        v = (1ull << k) + s.below(3) - 1;
        if (s.bits(1))
            v = (uint64_t)(-(int64_t)v);
        break;
    }
    default:
        v = s.bits(40);
        break;
    }
    return flat::sext40(v);
}

inline uint16_t gen_u16(vf::Stream& s) {
    static const uint16_t edges[] = {0, 1, 2, 0x7FFF, 0x8000, 0xFFFF, 0xFFFE, 0x00FF, 0x0100, 0x8001, 0x7FFE, 0x4000, 0xC000};
    switch (s.below(8)) {
    case 0:
    case 1:
        return edges[s.below(sizeof edges / sizeof edges[0])];
    case 2:
        return (uint16_t)s.below(64);
    case 3:
        return (uint16_t)(0 - s.below(64));
    default:
        return (uint16_t)s.bits(16);
    }
}

inline uint16_t gen_sv(vf::Stream& s) {
    switch (s.below(6)) {
    case 0:
        return (uint16_t)(int16_t)((int)s.below(97) - 48); // -48..48
    case 1: {
        static const int16_t e[] = {0, 1, -1, 15, 16, 17, 31, 32, 33, 38, 39, 40, 41, -15, -16, -17, -31, -32, -33, -39, -40, -41, 0x7FFF, -0x8000};
        return (uint16_t)e[s.below(sizeof e / sizeof e[0])];
    }
    case 2:
        return (uint16_t)(int16_t)((int)s.below(21) - 10);
    default:
        return gen_u16(s);
    }
}

/// Every field uniform within its hardware width (with boundary bias for accumulators / 16-bit values),
/// respecting the structural invariants every program preserves: lp == (bcn != 0), bcn <= 4, prpage = 0.
/// `density` in 0..8: roughly density/8 of the fields are randomised, the rest keep their reset value.
inline flat::State gen_state(vf::Stream& s, unsigned density = 8) {
    using namespace flat;
    State st = reset_state();
    for (int f = 0; f < NFIELDS; ++f) {
        if (density < 8 && s.below(8) >= density)
            continue;
        int bits = descs()[f].bits;
        if (bits == 40)
            st[f] = gen_acc40(s);
        else if (bits == 16)
            st[f] = gen_u16(s);
        else if (bits == 32)
            st[f] = s.chance(1, 4) ? (uint64_t)(gen_u16(s)) << 16 | gen_u16(s) : s.bits(32);
        else if (bits >= 4) { // narrow multi-bit fields (steps, moduli, counters): their extremes are boundary values too
            unsigned k = (unsigned)s.below(10);
            st[f] = k == 0 ? 0 : (k == 1 ? (1ull << bits) - 1 : (k == 2 ? 1 : s.bits(bits)));
        } else
            st[f] = s.bits(bits);
    }
    if (density >= 8 || s.chance(1, 2))
        st[F_sv] = gen_sv(s);
    st[F_prpage] = 0;
    st[F_pc] = s.below(0x3FFF0);
    if (s.chance(1, 8))
        st[F_pc] = (s.chance(1, 2) ? 0x0FFFE : 0x1FFFF) + s.below(3) - 1;
    st[F_mod0_unk_const] = 1;
    uint64_t bcn = st[F_bcn] % 5;
    if (s.chance(1, 2))
        bcn = 0;
    st[F_bcn] = bcn;
    st[F_lp] = bcn != 0;
    if (s.chance(3, 4))
        st[F_rep] = 0;
    return st;
}

/// memory cells an instruction is likely to touch, given the state: registers as addresses (plain and bit-reversed,
/// +-1/2), stack, page:imm8, imm16 and r7-relative operands
inline std::vector<Poke> gen_pokes(vf::Stream& s, const flat::State& st, uint16_t opcode, uint16_t expansion) {
    using namespace flat;
    std::vector<Poke> out;
    auto add = [&](uint16_t a) {
        out.push_back(Poke{0x20000u + a, gen_u16(s)});
    };
    auto bitrev = [](uint16_t v) {
        uint16_t r = 0;
        for (int i = 0; i < 16; ++i)
            r |= ((v >> i) & 1) << (15 - i);
        return r;
    };
    for (int i = 0; i < 8; ++i) {
        uint16_t r = (uint16_t)st[F_r + i];
        add(r);
        if (s.chance(1, 2)) {
            add(r + 1);
            add(r - 1);
        }
        if (st[F_br + i])
            add(bitrev(r));
    }
    uint16_t sp = (uint16_t)st[F_sp];
    for (int d = -2; d <= 2; ++d)
        add(sp + d);
    add((uint16_t)((st[F_page] << 8) | (opcode & 0xFF)));
    add(expansion);
    add((uint16_t)(expansion + st[F_r + 7]));
    uint16_t r7 = (uint16_t)st[F_r + 7];
    uint16_t imm7 = opcode & 0x7F;
    add((uint16_t)(r7 + ((imm7 & 0x40) ? (imm7 | 0xFF80) : imm7)));
    return out;
}

// ---- codec ----------------------------------------------------------------------------------------------
inline std::string encode(const ICase& c) {
    std::string s = "op " + vf::hex(c.opcode) + " " + vf::hex(c.expansion) + "\n";
    s += "state " + flat::encode(c.st) + "\n";
    if (!c.pokes.empty()) {
        s += "poke";
        for (auto& p : c.pokes)
            s += " " + vf::hex(p.addr) + ":" + vf::hex(p.val);
        s += "\n";
    }
    if (c.irq_mask)
        s += "irq " + vf::hex(c.irq_mask) + " " + vf::hex(c.vaddr) + " " + vf::hex(c.vctx) + "\n";
    if (c.cycles != 1)
        s += "cycles " + vf::hex(c.cycles) + "\n";
    if (!c.tag.empty())
        s += "tag " + c.tag + "\n";
    if (!c.more_code.empty()) {
        s += "code";
        for (auto w : c.more_code)
            s += " " + vf::hex(w);
        s += "\n";
    }
    return s;
}

inline ICase decode(const std::string& text) {
    ICase c;
    for (auto& l : vf::lines(text)) {
        auto t = vf::split_ws(l);
        if (t.empty())
            continue;
        if (t[0] == "op" && t.size() >= 3) {
            c.opcode = (uint16_t)vf::unhex(t[1]);
            c.expansion = (uint16_t)vf::unhex(t[2]);
        } else if (t[0] == "state") {
            flat::decode_into(c.st, l.substr(5));
        } else if (t[0] == "poke") {
            for (size_t i = 1; i < t.size(); ++i) {
                auto col = t[i].find(':');
                if (col != std::string::npos)
                    c.pokes.push_back(Poke{(uint32_t)vf::unhex(t[i].substr(0, col)), (uint16_t)vf::unhex(t[i].substr(col + 1))});
            }
        } else if (t[0] == "irq" && t.size() >= 4) {
            c.irq_mask = (unsigned)vf::unhex(t[1]);
            c.vaddr = (uint32_t)vf::unhex(t[2]);
            c.vctx = (unsigned)vf::unhex(t[3]);
        } else if (t[0] == "cycles" && t.size() >= 2) {
            c.cycles = (unsigned)vf::unhex(t[1]);
        } else if (t[0] == "tag") {
            c.tag = l.size() > 4 ? l.substr(4) : "";
        } else if (t[0] == "code") {
            for (size_t i = 1; i < t.size(); ++i)
                c.more_code.push_back((uint16_t)vf::unhex(t[i]));
        }
    }
    return c;
}

/// field-wise reducer: reset every state field / drop every poke that is not needed for the failure
inline ICase minimise(const ICase& c0, const std::function<bool(const ICase&)>& still_fails) {
    ICase c = c0;
    static const flat::State reset = flat::reset_state();
    if (c.irq_mask) {
        ICase t = c;
        t.irq_mask = 0;
        if (still_fails(t))
            c = t;
    }
    {
        ICase t = c;
        t.pokes.clear();
        if (still_fails(t))
            c = t;
    }
    for (size_t i = 0; i < c.pokes.size();) {
        ICase t = c;
        t.pokes.erase(t.pokes.begin() + i);
        if (still_fails(t))
            c = t;
        else
            ++i;
    }
    for (int pass = 0; pass < 2; ++pass) {
        for (int f = 0; f < flat::NFIELDS; ++f) {
            if (c.st[f] == reset[f])
                continue;
            ICase t = c;
            t.st[f] = reset[f];
            if (f == flat::F_bcn)
                t.st[flat::F_lp] = 0;
            if (f == flat::F_lp)
                t.st[flat::F_bcn] = 0;
            if (still_fails(t))
                c = t;
        }
    }
    if (c.expansion) {
        ICase t = c;
        t.expansion = 0;
        if (still_fails(t))
            c = t;
    }
    return c;
}

} // namespace icase
