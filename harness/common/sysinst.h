// sysinst.h -- one real Teakra facade instance with every callback installed and logged, an in-harness model of
// external (AHBM) memory, and a complete observation function. Shared by the system-level harnesses.
#pragma once
#include <array>
#include <cstring>
#include <functional>
#include <memory>
#include <string>
#include <unordered_map>
#include <vector>

#include "crash.h"
#include "flat_state.h"
#include "teakra/teakra.h"
#include "vf.h"

namespace Teakra {
class UnimplementedException; // defined in interpreter.h; caught by type name through std::runtime_error
}

namespace sysinst {

struct Event {
    char kind;        // 'A' audio frame, 'D' host data handler, 'S' host semaphore handler, 'r'/'w' external access
    uint32_t a, b, c; // payload
    bool operator==(const Event& o) const {
        return kind == o.kind && a == o.a && b == o.b && c == o.c;
    }
};

inline std::string show(const Event& e) {
    return std::string(1, e.kind) + "(" + vf::hex(e.a) + "," + vf::hex(e.b) + "," + vf::hex(e.c) + ")";
}

/// deterministic sparse external memory: unwritten bytes read as a hash of their address
struct ExtMem {
    std::unordered_map<uint32_t, uint8_t> bytes;
    uint8_t get(uint32_t a) const {
        auto it = bytes.find(a);
        return it != bytes.end() ? it->second : (uint8_t)(vf::mix64(a * 2654435761ull + 17) >> 24);
    }
    void put(uint32_t a, uint8_t v) {
        bytes[a] = v;
    }
};

// documented registers whose read has no side effect (CMDx 0x0C2/6/A are excluded: reading them clears the ready flag),
// each with the mask of its *modelled* bits: bit-field cells keep the raw last write for bits no peripheral models
// (TP/CT/BP/CS/GP/TM of TIMERx_CFG, END of 0x0D4, ...); those backing-storage bits are not part of the modelled state.
struct QuietReg {
    uint16_t offset, mask;
};
inline const std::vector<QuietReg>& quiet_registers() {
    static const std::vector<QuietReg> regs = [] {
        std::vector<QuietReg> v;
        for (uint16_t t = 0; t < 2; ++t) {
            v.push_back({(uint16_t)(0x20 + t * 0x10), 0x071F}); // TS, CM, PC, MU, RES(reads 0)
            for (uint16_t o : {0x22, 0x24, 0x26, 0x28, 0x2A})
                v.push_back({(uint16_t)(o + t * 0x10), 0xFFFF});
        }
        for (uint16_t o : {0x0C0, 0x0C4, 0x0C8, 0x0CC, 0x0CE, 0x0D0, 0x0D2, 0x0E0})
            v.push_back({o, 0xFFFF});
        v.push_back({0x0D4, 0x3100});
        v.push_back({0x0D6, 0x33E0});
        v.push_back({0x0D8, 0xFE00});
        for (uint16_t i = 0; i < 3; ++i) {
            v.push_back({(uint16_t)(0x0E2 + i * 6), 0x0036});
            v.push_back({(uint16_t)(0x0E4 + i * 6), 0x0100});
            v.push_back({(uint16_t)(0x0E6 + i * 6), 0xFFFF});
        }
        for (uint16_t o : {0x10E, 0x110, 0x112, 0x11E, 0x184, 0x18C, 0x1BE})
            v.push_back({o, 0xFFFF});
        v.push_back({0x114, 0x3F3F});
        v.push_back({0x116, 0x3F3F});
        v.push_back({0x11A, 0x0040});
        for (uint16_t o = 0x1C0; o <= 0x1DE; o += 2)
            v.push_back({o, (uint16_t)(o == 0x1DA ? 0x04FF : 0xFFFF)});
        for (uint16_t o = 0x200; o <= 0x20C; o += 2)
            v.push_back({o, 0xFFFF});
        for (uint16_t i = 0; i < 16; ++i) {
            v.push_back({(uint16_t)(0x212 + i * 4), 0x8003});
            v.push_back({(uint16_t)(0x214 + i * 4), 0xFFFF});
        }
        for (uint16_t i = 0; i < 2; ++i) {
            for (uint16_t o : {0x2A2, 0x2BE, 0x2CA})
                v.push_back({(uint16_t)(o + i * 0x80), 0xFFFF});
            v.push_back({(uint16_t)(0x2C2 + i * 0x80), 0x0018});
        }
        return v;
    }();
    return regs;
}

struct Outcome {
    int kind = 0; // 0 ok, 1 unimplemented, 2 deliberate assert, 3 other exception
    std::string what;
};

struct Sys {
    std::unique_ptr<Teakra::Teakra> t;
    std::vector<Event> log;
    ExtMem ext;
    std::vector<uint8_t> user_memory; // when the instance runs on a caller-supplied buffer
    uint8_t* retained = nullptr;      // the memory pointer a host fetched once, right after construction, and kept
    std::function<void()> on_external;  // optional: called on every external (AHBM) access, e.g. to enforce a work budget

    explicit Sys(bool own_memory = true) {
        Teakra::UserConfig cfg;
        if (!own_memory) {
            user_memory.assign(Teakra::DspMemorySize, 0);
            cfg.dsp_memory = user_memory.data();
        }
        t = std::make_unique<Teakra::Teakra>(cfg);
        retained = own_memory ? t->GetDspMemory() : user_memory.data();
        install();
    }
    void install() {
        for (int i = 0; i < 3; ++i)
            t->SetRecvDataHandler(i, [this, i] { log.push_back({'D', (uint32_t)i, 0, 0}); });
        t->SetSemaphoreHandler([this] { log.push_back({'S', 0, 0, 0}); });
        t->SetAudioCallback([this](std::array<std::int16_t, 2> s) { log.push_back({'A', (uint16_t)s[0], (uint16_t)s[1], 0}); });
        Teakra::AHBMCallback cb;
        cb.read8 = [this](uint32_t a) {
            if (on_external)
                on_external();
            uint8_t v = ext.get(a);
            log.push_back({'r', 8, a, v});
            return v;
        };
        cb.write8 = [this](uint32_t a, uint8_t v) {
            if (on_external)
                on_external();
            log.push_back({'w', 8, a, v});
            ext.put(a, v);
        };
        cb.read16 = [this](uint32_t a) {
            if (on_external)
                on_external();
            uint16_t v = (uint16_t)(ext.get(a) | (ext.get(a + 1) << 8));
            log.push_back({'r', 16, a, v});
            return v;
        };
        cb.write16 = [this](uint32_t a, uint16_t v) {
            if (on_external)
                on_external();
            log.push_back({'w', 16, a, v});
            ext.put(a, (uint8_t)v);
            ext.put(a + 1, (uint8_t)(v >> 8));
        };
        cb.read32 = [this](uint32_t a) {
            if (on_external)
                on_external();
            uint32_t v = 0;
            for (int k = 0; k < 4; ++k)
                v |= (uint32_t)ext.get(a + k) << (8 * k);
            log.push_back({'r', 32, a, v});
            return v;
        };
        cb.write32 = [this](uint32_t a, uint32_t v) {
            if (on_external)
                on_external();
            log.push_back({'w', 32, a, v});
            for (int k = 0; k < 4; ++k)
                ext.put(a + k, (uint8_t)(v >> (8 * k)));
        };
        t->SetAHBMCallback(cb);
    }

    /// run fn, mapping the legal exceptional outcomes to values
    template <class F>
    Outcome guarded(F&& fn) {
        Outcome o;
        try {
            fn();
        } catch (const TeakraVerifAssertFailure& e) {
            o.kind = 2;
            const char* f = std::strrchr(e.file, '/');
            o.what = std::string(e.expression) + " @" + (f ? f + 1 : e.file) + ":" + std::to_string(e.line);
        } catch (const std::runtime_error& e) {
            o.kind = std::string(e.what()) == "unimplemented" ? 1 : 3;
            o.what = e.what();
        } catch (const std::exception& e) {
            o.kind = 3;
            o.what = e.what();
        }
        return o;
    }

    flat::State regs() {
        flat::State s;
        sut_regs_get(&t->GetRegisterState(), &s);
        return s;
    }
    void set_regs(const flat::State& s) {
        sut_regs_set(&t->GetRegisterState(), &s);
    }
    uint64_t memory_digest() const {
        // (an observation must not look like a host write: the const accessor, or the caller's own buffer)
        const uint64_t* p = (const uint64_t*)(user_memory.empty() ? static_cast<const Teakra::Teakra&>(*t).GetDspMemory() : user_memory.data());
        uint64_t h = 0x9E3779B97F4A7C15ull;
        for (size_t i = 0; i < Teakra::DspMemorySize / 8; ++i)
            h = (h ^ p[i]) * 0x100000001B3ull + (h >> 29);
        return h;
    }

    /// everything a caller can see without changing anything: registers (incl. banks), memory digest, side-effect-free
    /// MMIO read-back, host API views. `names` (optional) receives a label per element, for diffs.
    std::vector<uint64_t> observe(std::vector<std::string>* names = nullptr, bool with_memory = true) {
        std::vector<uint64_t> o;
        auto add = [&](const std::string& n, uint64_t v) {
            o.push_back(v);
            if (names)
                names->push_back(n);
        };
        flat::State s = regs();
        for (int f = 0; f < flat::NFIELDS; ++f)
            add("reg." + flat::field_name(f), s[f]);
        if (with_memory)
            add("memory-digest", memory_digest());
        for (const QuietReg& r : quiet_registers())
            add("mmio." + vf::hex(r.offset), t->MMIORead(r.offset) & r.mask);
        for (int i = 0; i < 3; ++i) {
            add("SendDataIsEmpty" + std::to_string(i), t->SendDataIsEmpty(i));
            add("RecvDataIsReady" + std::to_string(i), t->RecvDataIsReady(i));
            add("PeekRecvData" + std::to_string(i), t->PeekRecvData(i));
            add("AHBMGetUnitSize" + std::to_string(i), t->AHBMGetUnitSize(i));
            add("AHBMGetDirection" + std::to_string(i), t->AHBMGetDirection(i));
            add("AHBMGetDmaChannel" + std::to_string(i), t->AHBMGetDmaChannel(i));
        }
        add("GetSemaphore", t->GetSemaphore());
        add("DMAChan0GetSrcHigh", t->DMAChan0GetSrcHigh());
        add("DMAChan0GetDstHigh", t->DMAChan0GetDstHigh());
        return o;
    }
};

inline std::string first_difference(const std::vector<uint64_t>& a, const std::vector<uint64_t>& b, const std::vector<std::string>& names, int max = 6) {
    std::string d;
    int n = 0;
    for (size_t i = 0; i < a.size() && i < b.size(); ++i)
        if (a[i] != b[i] && n++ < max)
            d += names[i] + ": " + vf::hex(a[i]) + " vs " + vf::hex(b[i]) + "; ";
    if (n > max)
        d += "... (" + std::to_string(n) + " observations differ)";
    return d;
}

} // namespace sysinst
