// genstream.h -- the project's own hardware test generator as a stream: GenerateTestCasesToFile() writes into a
// FIFO that is read concurrently, so the ~357 MB of a pass never touch the disk. The generator is seeded through
// the TEAKRA_VERIF hook, which makes a pass a pure function of the seed.
#pragma once
#include <cstdint>
#include <cstring>
#include <fcntl.h>
#include <functional>
#include <string>
#include <sys/stat.h>
#include <thread>
#include <unistd.h>
#include <vector>

namespace Teakra::Test {
bool GenerateTestCasesToFile(const char* path);
namespace Random {
void VerifSetSeed(uint32_t seed);
}
} // namespace Teakra::Test

namespace genstream {

/// struct TestCase { State before, after; u16 opcode, expand; } with 4 bytes of tail padding
inline uint16_t opcode_of(const std::vector<uint8_t>& v) {
    uint16_t o;
    std::memcpy(&o, v.data() + v.size() - 8, 2);
    return o;
}
inline uint16_t expand_of(const std::vector<uint8_t>& v) {
    uint16_t o;
    std::memcpy(&o, v.data() + v.size() - 6, 2);
    return o;
}

/// Calls fn(vector bytes) for every vector of one generator pass. Returns false if the generator reported failure.
inline bool for_each_vector(uint32_t seed, size_t vector_size, const std::function<void(const std::vector<uint8_t>&)>& fn) {
    char dir[] = "/tmp/verif_gen_XXXXXX";
    if (!mkdtemp(dir))
        return false;
    std::string fifo = std::string(dir) + "/vectors.fifo";
    if (mkfifo(fifo.c_str(), 0600) != 0)
        return false;
    bool gen_ok = true;
    std::thread producer([&] {
        Teakra::Test::Random::VerifSetSeed(seed);
        gen_ok = Teakra::Test::GenerateTestCasesToFile(fifo.c_str());
    });
    int fd = open(fifo.c_str(), O_RDONLY);
    std::vector<uint8_t> buf(vector_size);
    while (true) {
        size_t got = 0;
        while (got < vector_size) {
            ssize_t r = read(fd, buf.data() + got, vector_size - got);
            if (r <= 0)
                break;
            got += (size_t)r;
        }
        if (got < vector_size)
            break;
        fn(buf);
    }
    close(fd);
    producer.join();
    unlink(fifo.c_str());
    rmdir(dir);
    return gen_ok;
}

} // namespace genstream
