// arrefs.h -- what the annotated disassembler (ar/arp settings supplied) says an instruction addresses:
// the registers it names, the offset and post-modification step of each, and the modulo-disable flags it prints.
// Shared by C20 (three-way agreement on ar/arp words) and C10 (stepping of every ar/arp-addressed form).
#pragma once
#include <regex>
#include <string>
#include <vector>

#include "optable.h"

namespace arrefs {

struct Ref {
    int reg;
    int off;  // 0, +1, -1
    int step; // 0 ++0, 1 ++1, 2 --1, 3 ++s, 4 ++2, 5 --2, 6 ++2*, 7 --2*
    bool has_step;
};

inline std::vector<Ref> parse_refs(const std::vector<std::string>& tokens) {
    static const std::regex re(R"(\[%r([0-7])(?:(\+0|\+1|-1\*|-1)(\+\+0|\+\+1|--1|\+\+s|\+\+2\*|--2\*|\+\+2|--2))?\])");
    static const char* steps[] = {"++0", "++1", "--1", "++s", "++2", "--2", "++2*", "--2*"};
    std::vector<Ref> out;
    for (auto& t : tokens) {
        std::smatch m;
        if (std::regex_match(t, m, re)) {
            Ref r{};
            r.reg = m[1].str()[0] - '0';
            r.has_step = m[2].matched;
            if (r.has_step) {
                std::string o = m[2].str(), s = m[3].str();
                r.off = o == "+1" ? 1 : (o == "+0" ? 0 : -1);
                for (int k = 0; k < 8; ++k)
                    if (s == steps[k])
                        r.step = k;
            }
            out.push_back(r);
        }
    }
    return out;
}

/// modulo-disable flags the text prints: "dmod" (both sides), "dmodi" (r0..r3), "dmodj" (r4..r7), "xymod" with x,y in {e,d} for the i and j side
inline bool dmod_for(const std::vector<std::string>& tokens, int reg) {
    for (auto& t : tokens) {
        if (t == "dmod")
            return true;
        if (t == "dmodi" && reg < 4)
            return true;
        if (t == "dmodj" && reg >= 4)
            return true;
        if (t.size() == 5 && t.compare(2, 3, "mod") == 0 && (t[0] == 'e' || t[0] == 'd') && (t[1] == 'e' || t[1] == 'd'))
            return (reg < 4 ? t[0] : t[1]) == 'd'; // eemod / edmod / demod / ddmod: i side first, then j side
    }
    return false;
}

inline bool is_ar_form(const optable::Info& i) {
    for (auto& o : i.operands)
        if (o.type.find("ArRn") != std::string::npos || o.type.find("ArStep") != std::string::npos || o.type.find("ArpRn") != std::string::npos ||
            o.type.find("ArpStep") != std::string::npos)
            return true;
    return false;
}

} // namespace arrefs
