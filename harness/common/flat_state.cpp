#include "flat_state.h"

#include <cinttypes>
#include <cstdio>
#include <cstdlib>
#include <sstream>

namespace flat {

State reset_state() {
    State s;
    std::memset(&s, 0, sizeof s);
    s[F_cpc] = 1;
    s[F_crep] = 1;
    s[F_ccnta] = 1;
    s[F_sata] = 1;
    s[F_cmd] = 1;
    const uint64_t st[4] = {1, 4, 5, 3}, of[4] = {0, 1, 2, 0}, rn[4] = {0, 4, 2, 6}, prn[4] = {0, 1, 2, 3};
    for (int i = 0; i < 4; ++i) {
        s[F_arstep + i] = s[F_arpstepi + i] = s[F_arpstepj + i] = st[i];
        s[F_aroffset + i] = s[F_arpoffseti + i] = s[F_arpoffsetj + i] = of[i];
        s[F_arrn + i] = rn[i];
        s[F_arprni + i] = s[F_arprnj + i] = prn[i];
    }
    s[F_mod0_unk_const] = 1;
    return s;
}

std::string encode(const State& s) {
    static const State r = reset_state();
    std::string out;
    char buf[64];
    for (int f = 0; f < NFIELDS; ++f) {
        if (s[f] != r[f]) {
            uint64_t v = is_acc40(f) ? (s[f] & 0xFFFFFFFFFFull) : s[f];
            std::snprintf(buf, sizeof buf, "%s=%" PRIx64 " ", field_name(f).c_str(), v);
            out += buf;
        }
    }
    return out;
}

void decode_into(State& s, const std::string& line) {
    std::istringstream ss(line);
    std::string tok;
    while (ss >> tok) {
        auto eq = tok.find('=');
        if (eq == std::string::npos)
            continue;
        std::string n = tok.substr(0, eq);
        uint64_t v = std::strtoull(tok.c_str() + eq + 1, nullptr, 16);
        for (int f = 0; f < NFIELDS; ++f)
            if (field_name(f) == n) {
                s[f] = fit(f, v);
                break;
            }
    }
}

std::string diff(const State& a, const State& b, int max_items) {
    std::string out;
    int n = 0;
    char buf[96];
    for (int f = 0; f < NFIELDS; ++f) {
        if (a[f] != b[f]) {
            if (n++ < max_items) {
                std::snprintf(buf, sizeof buf, "%s: %" PRIx64 " vs %" PRIx64 "; ", field_name(f).c_str(),
                              is_acc40(f) ? (a[f] & 0xFFFFFFFFFFull) : a[f], is_acc40(f) ? (b[f] & 0xFFFFFFFFFFull) : b[f]);
                out += buf;
            }
        }
    }
    if (n > max_items)
        out += "... (" + std::to_string(n) + " fields differ)";
    return out;
}

} // namespace flat
