// shim_core.cpp -- the only harness TU that includes interpreter.h. Built twice:
//   against /repo          with -DSHIM_PREFIX=sut_   (the system under test, ASan/UBSan)
//   against /verif/ref     with -DSHIM_PREFIX=ref_   (frozen reference, hidden visibility, own .so)
// The core is assembled exactly like src/test_verifier/main.cpp assembles it.
#include <cstring>
#include <vector>

#include "ahbm.h"
#include "apbp.h"
#include "btdmp.h"
#include "core_timing.h"
#include "dma.h"
#include "icu.h"
#include "interpreter.h"
#include "mmio.h"
#include "timer.h"
#include "memory_interface.h"
#include "shared_memory.h"
#include "test.h"

#include "flat_state.h"

#ifndef SHIM_PREFIX
#error "SHIM_PREFIX must be sut_ or ref_"
#endif
#define SHIM_CAT2(a, b) a##b
#define SHIM_CAT(a, b) SHIM_CAT2(a, b)
#define SHIM(name) SHIM_CAT(SHIM_PREFIX, name)
#define EXPORT extern "C" __attribute__((visibility("default")))

using namespace Teakra;
using namespace flat;
using FState = flat::State;

namespace {

// The hidden operand of the codebook search is state of RegisterState in the pinned tree. A tree that keeps it somewhere else
// still builds: the flat field then reads 0 and cannot be set (a difference shows through the instructions that use it).
template <class R>
auto get_p0h_cbs(const R& r, int) -> decltype((u16)r.p0h_cbs) {
    return r.p0h_cbs;
}
template <class R>
u16 get_p0h_cbs(const R&, long) {
    return 0;
}
template <class R>
auto set_p0h_cbs(R& r, u16 v, int) -> decltype((void)(r.p0h_cbs = v)) {
    r.p0h_cbs = v;
}
template <class R>
void set_p0h_cbs(R&, u16, long) {}

struct Core {
    CoreTiming core_timing;
    SharedMemory shared_memory;
    MemoryInterfaceUnit miu;
    MemoryInterface memory_interface{shared_memory, miu};
    RegisterState regs;
    Interpreter interpreter{core_timing, regs, memory_interface};
    // test_verifier leaves MemoryInterface::mmio uninitialised, so any data access inside the MMIO window would
    // dereference garbage. Give the core an inert MMIO region instead (peripherals on a clock that never ticks).
    CoreTiming periph_timing;
    ICU icu;
    Apbp apbp_from_cpu, apbp_from_dsp;
    std::array<Timer, 2> timer{{{periph_timing}, {periph_timing}}};
    Ahbm ahbm;
    Dma dma{shared_memory, ahbm};
    std::array<Btdmp, 2> btdmp{{{periph_timing}, {periph_timing}}};
    MMIORegion mmio{miu, icu, apbp_from_cpu, apbp_from_dsp, timer, dma, ahbm, btdmp};
    Core() {
        memory_interface.SetMMIO(mmio);
        icu.SetInterruptHandler([](u32) {}, [](u32, bool) {});
        for (auto& t : timer)
            t.SetInterruptHandler([] {});
        for (auto& b : btdmp)
            b.SetInterruptHandler([] {});
        dma.SetInterruptHandler([] {});
    }
    std::vector<ShimAccess> log;
    bool logging = false;
    int oob = 0;
};

Core* g_active = nullptr; // the core whose accesses the (process-wide, per-copy) observer records

bool observer(u32 word_address, bool is_write) {
    Core* c = g_active;
    if (!c)
        return word_address < 0x40000;
    bool in = word_address < 0x40000;
    if (!in)
        ++c->oob;
    if (c->logging) {
        ShimAccess a;
        a.addr = word_address;
        a.write = is_write;
        a.oob = !in;
        a.value = 0;
        if (in && !is_write) {
            const u8* raw = c->shared_memory.raw;
            a.value = raw[word_address * 2] | (raw[word_address * 2 + 1] << 8);
        }
        c->log.push_back(a);
    }
    return in; // out-of-range accesses are suppressed so that the process survives to report them
}

// ---- visible <-> flat -------------------------------------------------------------------------------
void visible_to_flat(const RegisterState& r, FState& s) {
    s[F_pc] = r.pc;
    s[F_prpage] = r.prpage;
    s[F_cpc] = r.cpc;
    s[F_repc] = r.repc;
    s[F_repcs] = r.repcs;
    s[F_rep] = r.rep;
    s[F_crep] = r.crep;
    s[F_bcn] = r.bcn;
    s[F_lp] = r.lp;
    for (int i = 0; i < 4; ++i) {
        s[F_bk_start + i] = r.bkrep_stack[i].start;
        s[F_bk_end + i] = r.bkrep_stack[i].end;
        s[F_bk_lc + i] = r.bkrep_stack[i].lc;
    }
    for (int i = 0; i < 2; ++i) {
        s[F_a + i] = r.a[i];
        s[F_b + i] = r.b[i];
        s[F_x + i] = r.x[i];
        s[F_y + i] = r.y[i];
        s[F_p + i] = r.p[i];
        s[F_pe + i] = r.pe[i];
        s[F_ps + i] = r.ps[i];
        s[F_iu + i] = r.iu[i];
    }
    s[F_a1s] = r.a1s;
    s[F_b1s] = r.b1s;
    s[F_ccnta] = r.ccnta;
    s[F_sat] = r.sat;
    s[F_sata] = r.sata;
    s[F_s] = r.s;
    s[F_sv] = r.sv;
    s[F_fz] = r.fz;
    s[F_fm] = r.fm;
    s[F_fn] = r.fn;
    s[F_fv] = r.fv;
    s[F_fe] = r.fe;
    s[F_fc0] = r.fc0;
    s[F_fc1] = r.fc1;
    s[F_flm] = r.flm;
    s[F_fvl] = r.fvl;
    s[F_fr] = r.fr;
    s[F_vtr0] = r.vtr0;
    s[F_vtr1] = r.vtr1;
    s[F_hwm] = r.hwm;
    s[F_p0h_cbs] = get_p0h_cbs(r, 0);
    for (int i = 0; i < 8; ++i) {
        s[F_r + i] = r.r[i];
        s[F_m + i] = r.m[i];
        s[F_br + i] = r.br[i];
    }
    s[F_mixp] = r.mixp;
    s[F_sp] = r.sp;
    s[F_page] = r.page;
    s[F_pcmhi] = r.pcmhi;
    s[F_r0b] = r.r0b;
    s[F_r1b] = r.r1b;
    s[F_r4b] = r.r4b;
    s[F_r7b] = r.r7b;
    s[F_stepi] = r.stepi;
    s[F_stepj] = r.stepj;
    s[F_modi] = r.modi;
    s[F_modj] = r.modj;
    s[F_stepi0] = r.stepi0;
    s[F_stepj0] = r.stepj0;
    s[F_stepib] = r.stepib;
    s[F_stepjb] = r.stepjb;
    s[F_modib] = r.modib;
    s[F_modjb] = r.modjb;
    s[F_stepi0b] = r.stepi0b;
    s[F_stepj0b] = r.stepj0b;
    s[F_stp16] = r.stp16;
    s[F_cmd] = r.cmd;
    s[F_epi] = r.epi;
    s[F_epj] = r.epj;
    for (int i = 0; i < 4; ++i) {
        s[F_arstep + i] = r.arstep[i];
        s[F_arpstepi + i] = r.arpstepi[i];
        s[F_arpstepj + i] = r.arpstepj[i];
        s[F_aroffset + i] = r.aroffset[i];
        s[F_arpoffseti + i] = r.arpoffseti[i];
        s[F_arpoffsetj + i] = r.arpoffsetj[i];
        s[F_arrn + i] = r.arrn[i];
        s[F_arprni + i] = r.arprni[i];
        s[F_arprnj + i] = r.arprnj[i];
        s[F_ext + i] = r.ext[i];
    }
    for (int i = 0; i < 3; ++i) {
        s[F_ip + i] = r.ip[i];
        s[F_im + i] = r.im[i];
        s[F_ic + i] = r.ic[i];
    }
    s[F_ipv] = r.ipv;
    s[F_imv] = r.imv;
    s[F_nimc] = r.nimc;
    s[F_ie] = r.ie;
    for (int i = 0; i < 5; ++i)
        s[F_ou + i] = r.ou[i];
    s[F_mod0_unk_const] = r.mod0_unk_const;
}

void flat_to_visible(const FState& s, RegisterState& r) {
    r.pc = (u32)s[F_pc];
    r.prpage = (u16)s[F_prpage];
    r.cpc = (u16)s[F_cpc];
    r.repc = (u16)s[F_repc];
    r.repcs = (u16)s[F_repcs];
    r.rep = s[F_rep] != 0;
    r.crep = (u16)s[F_crep];
    r.bcn = (u16)s[F_bcn];
    r.lp = (u16)s[F_lp];
    for (int i = 0; i < 4; ++i) {
        r.bkrep_stack[i].start = (u32)s[F_bk_start + i];
        r.bkrep_stack[i].end = (u32)s[F_bk_end + i];
        r.bkrep_stack[i].lc = (u16)s[F_bk_lc + i];
    }
    for (int i = 0; i < 2; ++i) {
        r.a[i] = s[F_a + i];
        r.b[i] = s[F_b + i];
        r.x[i] = (u16)s[F_x + i];
        r.y[i] = (u16)s[F_y + i];
        r.p[i] = (u32)s[F_p + i];
        r.pe[i] = (u16)s[F_pe + i];
        r.ps[i] = (u16)s[F_ps + i];
        r.iu[i] = (u16)s[F_iu + i];
    }
    r.a1s = s[F_a1s];
    r.b1s = s[F_b1s];
    r.ccnta = (u16)s[F_ccnta];
    r.sat = (u16)s[F_sat];
    r.sata = (u16)s[F_sata];
    r.s = (u16)s[F_s];
    r.sv = (u16)s[F_sv];
    r.fz = (u16)s[F_fz];
    r.fm = (u16)s[F_fm];
    r.fn = (u16)s[F_fn];
    r.fv = (u16)s[F_fv];
    r.fe = (u16)s[F_fe];
    r.fc0 = (u16)s[F_fc0];
    r.fc1 = (u16)s[F_fc1];
    r.flm = (u16)s[F_flm];
    r.fvl = (u16)s[F_fvl];
    r.fr = (u16)s[F_fr];
    r.vtr0 = (u16)s[F_vtr0];
    r.vtr1 = (u16)s[F_vtr1];
    r.hwm = (u16)s[F_hwm];
    set_p0h_cbs(r, (u16)s[F_p0h_cbs], 0);
    for (int i = 0; i < 8; ++i) {
        r.r[i] = (u16)s[F_r + i];
        r.m[i] = (u16)s[F_m + i];
        r.br[i] = (u16)s[F_br + i];
    }
    r.mixp = (u16)s[F_mixp];
    r.sp = (u16)s[F_sp];
    r.page = (u16)s[F_page];
    r.pcmhi = (u16)s[F_pcmhi];
    r.r0b = (u16)s[F_r0b];
    r.r1b = (u16)s[F_r1b];
    r.r4b = (u16)s[F_r4b];
    r.r7b = (u16)s[F_r7b];
    r.stepi = (u16)s[F_stepi];
    r.stepj = (u16)s[F_stepj];
    r.modi = (u16)s[F_modi];
    r.modj = (u16)s[F_modj];
    r.stepi0 = (u16)s[F_stepi0];
    r.stepj0 = (u16)s[F_stepj0];
    r.stepib = (u16)s[F_stepib];
    r.stepjb = (u16)s[F_stepjb];
    r.modib = (u16)s[F_modib];
    r.modjb = (u16)s[F_modjb];
    r.stepi0b = (u16)s[F_stepi0b];
    r.stepj0b = (u16)s[F_stepj0b];
    r.stp16 = (u16)s[F_stp16];
    r.cmd = (u16)s[F_cmd];
    r.epi = (u16)s[F_epi];
    r.epj = (u16)s[F_epj];
    for (int i = 0; i < 4; ++i) {
        r.arstep[i] = (u16)s[F_arstep + i];
        r.arpstepi[i] = (u16)s[F_arpstepi + i];
        r.arpstepj[i] = (u16)s[F_arpstepj + i];
        r.aroffset[i] = (u16)s[F_aroffset + i];
        r.arpoffseti[i] = (u16)s[F_arpoffseti + i];
        r.arpoffsetj[i] = (u16)s[F_arpoffsetj + i];
        r.arrn[i] = (u16)s[F_arrn + i];
        r.arprni[i] = (u16)s[F_arprni + i];
        r.arprnj[i] = (u16)s[F_arprnj + i];
        r.ext[i] = (u16)s[F_ext + i];
    }
    for (int i = 0; i < 3; ++i) {
        r.ip[i] = (u16)s[F_ip + i];
        r.im[i] = (u16)s[F_im + i];
        r.ic[i] = (u16)s[F_ic + i];
    }
    r.ipv = (u16)s[F_ipv];
    r.imv = (u16)s[F_imv];
    r.nimc = (u16)s[F_nimc];
    r.ie = (u16)s[F_ie];
    for (int i = 0; i < 5; ++i)
        r.ou[i] = (u16)s[F_ou + i];
    r.mod0_unk_const = (u16)s[F_mod0_unk_const];
}

// fields of the two-way bank, as (visible field, shadow field) pairs in FlatState
struct Pair {
    int vis, sh, n;
};
const Pair kSwapPairs[] = {
    {F_pcmhi, F_ss_pcmhi, 1},         {F_sat, F_ss_sat, 1},           {F_sata, F_ss_sata, 1},
    {F_hwm, F_ss_hwm, 1},             {F_s, F_ss_s, 1},               {F_ps, F_ss_ps, 2},
    {F_page, F_ss_page, 1},           {F_stp16, F_ss_stp16, 1},       {F_cmd, F_ss_cmd, 1},
    {F_m, F_ss_m, 8},                 {F_br, F_ss_br, 8},             {F_im, F_ss_im, 3},
    {F_imv, F_ss_imv, 1},             {F_epi, F_ss_epi, 1},           {F_epj, F_ss_epj, 1},
    {F_arrn, F_ss_arrn, 4},           {F_arstep, F_ss_arstep, 4},     {F_aroffset, F_ss_aroffset, 4},
    {F_arprni, F_ss_arprni, 4},       {F_arprnj, F_ss_arprnj, 4},     {F_arpstepi, F_ss_arpstepi, 4},
    {F_arpstepj, F_ss_arpstepj, 4},   {F_arpoffseti, F_ss_arpoffseti, 4}, {F_arpoffsetj, F_ss_arpoffsetj, 4},
};
const int kFlagVis[] = {F_flm, F_fvl, F_fe, F_fc0, F_fc1, F_fv, F_fn, F_fm, F_fz, F_fr};
const int kFlagSh[] = {F_sh_flm, F_sh_fvl, F_sh_fe, F_sh_fc0, F_sh_fc1, F_sh_fv, F_sh_fn, F_sh_fm, F_sh_fz, F_sh_fr};

void get_state(const RegisterState& regs, FState& s) {
    std::memset(&s, 0, sizeof s);
    visible_to_flat(regs, s);
    // two-way bank: ShadowSwap() is an involution, so after one swap on a copy the visible fields hold the shadows
    RegisterState copy = regs;
    copy.ShadowSwap();
    FState t;
    std::memset(&t, 0, sizeof t);
    visible_to_flat(copy, t);
    for (const Pair& p : kSwapPairs)
        for (int i = 0; i < p.n; ++i)
            s[p.sh + i] = t[p.vis + i];
    // one-way bank: ShadowRestore() on a copy makes the saved flags visible
    RegisterState copy2 = regs;
    copy2.ShadowRestore();
    visible_to_flat(copy2, t);
    for (int i = 0; i < 10; ++i)
        s[kFlagSh[i]] = t[kFlagVis[i]];
}

void set_state(RegisterState& regs, const FState& s) {
    // 1. load the desired shadow values into the visible fields and push them into the banks
    FState t = s;
    for (const Pair& p : kSwapPairs)
        for (int i = 0; i < p.n; ++i)
            t[p.vis + i] = s[p.sh + i];
    for (int i = 0; i < 10; ++i)
        t[kFlagVis[i]] = s[kFlagSh[i]];
    flat_to_visible(t, regs);
    regs.ShadowStore(); // one-way bank := visible flags
    regs.ShadowSwap();  // two-way bank := visible fields (visible := old bank content, overwritten next)
    // 2. now the real visible values
    flat_to_visible(s, regs);
}

} // namespace

EXPORT void* SHIM(new_core)() {
    Core* c = new Core;
    SharedMemory::verif_observer = observer;
    return c;
}
EXPORT void SHIM(set_state)(void* h, const FState* s) {
    set_state(((Core*)h)->regs, *s);
}
EXPORT void SHIM(get_state)(void* h, FState* s) {
    get_state(((Core*)h)->regs, *s);
}
EXPORT uint8_t* SHIM(mem)(void* h) {
    return ((Core*)h)->shared_memory.raw;
}
EXPORT void SHIM(run)(void* h, unsigned cycles, ShimRunInfo* info) {
    Core* c = (Core*)h;
    g_active = c;
    c->oob = 0;
    info->outcome = 0;
    info->what[0] = 0;
    try {
        c->interpreter.Run(cycles);
    } catch (const UnimplementedException&) {
        info->outcome = 1;
        std::strncpy(info->what, "unimplemented", sizeof info->what - 1);
    } catch (const TeakraVerifAssertFailure& e) {
        info->outcome = 2;
        std::snprintf(info->what, sizeof info->what, "%s @%s:%d", e.expression,
                      std::strrchr(e.file, '/') ? std::strrchr(e.file, '/') + 1 : e.file, e.line);
    } catch (const std::exception& e) {
        info->outcome = 3;
        std::snprintf(info->what, sizeof info->what, "exception: %s", e.what());
    }
    info->oob = c->oob;
    g_active = nullptr;
}
EXPORT void SHIM(signal_interrupt)(void* h, unsigned line) {
    ((Core*)h)->interpreter.SignalInterrupt(line);
}
EXPORT void SHIM(signal_vectored)(void* h, uint32_t address, int ctx) {
    ((Core*)h)->interpreter.SignalVectoredInterrupt(address, ctx != 0);
}
EXPORT void SHIM(log_begin)(void* h) {
    Core* c = (Core*)h;
    c->log.clear();
    c->logging = true;
}
EXPORT const ShimAccess* SHIM(log_end)(void* h, uint32_t* count) {
    Core* c = (Core*)h;
    c->logging = false;
    *count = (uint32_t)c->log.size();
    return c->log.data();
}
EXPORT int SHIM(decode_info)(uint16_t opcode, char* name, int name_len) {
    // the table the interpreter really dispatches through (Interpreter's constructor builds it with this very call),
    // not a fresh Decode<>() of the word
    static const auto table = GetDecoderTable<Interpreter>();
    const auto& m = table[opcode];
    if (name && name_len > 0) {
        std::strncpy(name, m.GetName(), name_len - 1);
        name[name_len - 1] = 0;
    }
    return m.NeedExpansion() ? 1 : 0;
}
EXPORT void SHIM(set_mmio_base)(void* h, uint16_t base) {
    ((Core*)h)->miu.mmio_base = base;
}
// undo the only persistent effect a case can have on the inert MMIO region when the window is {0xFFFF}: cell 0
EXPORT void SHIM(post_case)(void* h) {
    ((Core*)h)->mmio.Write(0, 0);
}

// Load one vector of the project's own hardware test generator exactly as src/test_verifier/main.cpp does.
EXPORT void SHIM(load_vector)(void* h, const void* test_case_bytes) {
    Core* c = (Core*)h;
    TestCase test_case;
    std::memcpy(&test_case, test_case_bytes, sizeof test_case);
    RegisterState& regs = c->regs;
    MemoryInterface& memory_interface = c->memory_interface;
    regs.Reset();
    regs.a = test_case.before.a;
    regs.b = test_case.before.b;
    regs.p = test_case.before.p;
    regs.r = test_case.before.r;
    regs.x = test_case.before.x;
    regs.y = test_case.before.y;
    regs.stepi0 = test_case.before.stepi0;
    regs.stepj0 = test_case.before.stepj0;
    regs.mixp = test_case.before.mixp;
    regs.sv = test_case.before.sv;
    regs.repc = test_case.before.repc;
    regs.Lc() = test_case.before.lc;
    regs.Set<Teakra::cfgi>(test_case.before.cfgi);
    regs.Set<Teakra::cfgj>(test_case.before.cfgj);
    regs.Set<Teakra::stt0>(test_case.before.stt0);
    regs.Set<Teakra::stt1>(test_case.before.stt1);
    regs.Set<Teakra::stt2>(test_case.before.stt2);
    regs.Set<Teakra::mod0>(test_case.before.mod0);
    regs.Set<Teakra::mod1>(test_case.before.mod1);
    regs.Set<Teakra::mod2>(test_case.before.mod2);
    regs.Set<Teakra::ar0>(test_case.before.ar[0]);
    regs.Set<Teakra::ar1>(test_case.before.ar[1]);
    regs.Set<Teakra::arp0>(test_case.before.arp[0]);
    regs.Set<Teakra::arp1>(test_case.before.arp[1]);
    regs.Set<Teakra::arp2>(test_case.before.arp[2]);
    regs.Set<Teakra::arp3>(test_case.before.arp[3]);
    for (u16 offset = 0; offset < TestSpaceSize; ++offset) {
        memory_interface.DataWrite(TestSpaceX + offset, test_case.before.test_space_x[offset]);
        memory_interface.DataWrite(TestSpaceY + offset, test_case.before.test_space_y[offset]);
    }
    memory_interface.ProgramWrite(0, test_case.opcode);
    memory_interface.ProgramWrite(1, test_case.expand);
}
EXPORT int SHIM(vector_size)() {
    return (int)sizeof(TestCase);
}

// ---- pseudo-register words through RegisterState::Set<>/Get<> (order: st0 st1 st2 stt0 stt1 stt2 mod0 mod1 mod2 mod3
//      cfgi cfgj ar0 ar1 arp0 arp1 arp2 arp3 icr) ---------------------------------------------------------------
#define SHIM_WORDS(X)                                                                                                  \
    X(0, st0) X(1, st1) X(2, st2) X(3, stt0) X(4, stt1) X(5, stt2) X(6, mod0) X(7, mod1) X(8, mod2) X(9, mod3)         \
    X(10, cfgi) X(11, cfgj) X(12, ar0) X(13, ar1) X(14, arp0) X(15, arp1) X(16, arp2) X(17, arp3) X(18, icr)
EXPORT void SHIM(pseudo_set)(void* h, int word, uint16_t value) {
    RegisterState& regs = ((Core*)h)->regs;
    switch (word) {
#define X(i, T)                                                                                                        \
    case i:                                                                                                            \
        regs.Set<Teakra::T>(value);                                                                                    \
        break;
        SHIM_WORDS(X)
#undef X
    }
}
EXPORT uint16_t SHIM(pseudo_get)(void* h, int word) {
    RegisterState& regs = ((Core*)h)->regs;
    switch (word) {
#define X(i, T)                                                                                                        \
    case i:                                                                                                            \
        return regs.Get<Teakra::T>();
        SHIM_WORDS(X)
#undef X
    }
    return 0;
}

// the same flat <-> RegisterState conversion for a RegisterState that lives elsewhere (Teakra::GetRegisterState())
EXPORT void SHIM(regs_get)(const void* regs, FState* s) {
    get_state(*(const RegisterState*)regs, *s);
}
EXPORT void SHIM(regs_set)(void* regs, const FState* s) {
    set_state(*(RegisterState*)regs, *s);
}
