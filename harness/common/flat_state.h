// flat_state.h -- every field of Teakra::RegisterState (incl. the private shadow banks) as one POD,
// independent of the repository headers, so that harnesses and the frozen reference can exchange states.
#pragma once
#include <cstdint>
#include <cstring>
#include <string>

// FS(name, bits)        scalar field      FA(name, count, bits)  array field (expanded to name0..nameN-1)
#define FLAT_FIELDS(FS, FA)                                                                                            \
    FS(pc, 18) FS(prpage, 4) FS(cpc, 1) FS(repc, 16) FS(repcs, 16) FS(rep, 1) FS(crep, 1) FS(bcn, 3) FS(lp, 1)         \
    FA(bk_start, 4, 18) FA(bk_end, 4, 18) FA(bk_lc, 4, 16)                                                             \
    FA(a, 2, 40) FA(b, 2, 40) FS(a1s, 40) FS(b1s, 40) FS(ccnta, 1)                                                     \
    FS(sat, 1) FS(sata, 1) FS(s, 1) FS(sv, 16)                                                                         \
    FS(fz, 1) FS(fm, 1) FS(fn, 1) FS(fv, 1) FS(fe, 1) FS(fc0, 1) FS(fc1, 1) FS(flm, 1) FS(fvl, 1) FS(fr, 1)            \
    FS(vtr0, 16) FS(vtr1, 16)                                                                                          \
    FA(x, 2, 16) FA(y, 2, 16) FS(hwm, 2) FA(p, 2, 32) FA(pe, 2, 1) FA(ps, 2, 2) FS(p0h_cbs, 16)                        \
    FA(r, 8, 16) FS(mixp, 16) FS(sp, 16) FS(page, 8) FS(pcmhi, 2)                                                      \
    FS(r0b, 16) FS(r1b, 16) FS(r4b, 16) FS(r7b, 16)                                                                    \
    FS(stepi, 7) FS(stepj, 7) FS(modi, 9) FS(modj, 9) FS(stepi0, 16) FS(stepj0, 16)                                    \
    FS(stepib, 7) FS(stepjb, 7) FS(modib, 9) FS(modjb, 9) FS(stepi0b, 16) FS(stepj0b, 16)                              \
    FA(m, 8, 1) FA(br, 8, 1) FS(stp16, 1) FS(cmd, 1) FS(epi, 1) FS(epj, 1)                                             \
    FA(arstep, 4, 3) FA(arpstepi, 4, 3) FA(arpstepj, 4, 3)                                                             \
    FA(aroffset, 4, 2) FA(arpoffseti, 4, 2) FA(arpoffsetj, 4, 2)                                                       \
    FA(arrn, 4, 3) FA(arprni, 4, 2) FA(arprnj, 4, 2)                                                                   \
    FA(ip, 3, 1) FS(ipv, 1) FA(im, 3, 1) FS(imv, 1) FA(ic, 3, 1) FS(nimc, 1) FS(ie, 1)                                 \
    FA(ou, 5, 1) FA(iu, 2, 1) FA(ext, 4, 16) FS(mod0_unk_const, 3)                                                     \
    /* one-way shadow bank (flags) */                                                                                  \
    FS(sh_flm, 1) FS(sh_fvl, 1) FS(sh_fe, 1) FS(sh_fc0, 1) FS(sh_fc1, 1) FS(sh_fv, 1) FS(sh_fn, 1) FS(sh_fm, 1)        \
    FS(sh_fz, 1) FS(sh_fr, 1)                                                                                          \
    /* two-way (swap) shadow bank */                                                                                   \
    FS(ss_pcmhi, 2) FS(ss_sat, 1) FS(ss_sata, 1) FS(ss_hwm, 2) FS(ss_s, 1) FA(ss_ps, 2, 2) FS(ss_page, 8)              \
    FS(ss_stp16, 1) FS(ss_cmd, 1) FA(ss_m, 8, 1) FA(ss_br, 8, 1) FA(ss_im, 3, 1) FS(ss_imv, 1) FS(ss_epi, 1)           \
    FS(ss_epj, 1)                                                                                                      \
    FA(ss_arrn, 4, 3) FA(ss_arstep, 4, 3) FA(ss_aroffset, 4, 2) FA(ss_arprni, 4, 2) FA(ss_arprnj, 4, 2)                \
    FA(ss_arpstepi, 4, 3) FA(ss_arpstepj, 4, 3) FA(ss_arpoffseti, 4, 2) FA(ss_arpoffsetj, 4, 2)

namespace flat {

enum Field : int {
#define FS(n, b) F_##n,
#define FA(n, c, b) F_##n, F_##n##_last = F_##n + (c)-1,
    FLAT_FIELDS(FS, FA)
#undef FS
#undef FA
        NFIELDS
};

struct FieldDesc {
    const char* name; // base name
    int index;        // index within an array field (0 for scalars)
    int count;        // array length (1 for scalars)
    int bits;
};

inline const FieldDesc* descs() {
    static FieldDesc d[NFIELDS];
    static bool init = false;
    if (!init) {
        int k = 0;
#define FS(n, b) d[k++] = FieldDesc{#n, 0, 1, b};
#define FA(n, c, b)                                                                                                    \
    for (int i = 0; i < (c); ++i)                                                                                      \
        d[k++] = FieldDesc{#n, i, c, b};
        FLAT_FIELDS(FS, FA)
#undef FS
#undef FA
        init = true;
    }
    return d;
}

inline std::string field_name(int f) {
    const FieldDesc& d = descs()[f];
    return d.count == 1 ? std::string(d.name) : std::string(d.name) + std::to_string(d.index);
}

/// Values are stored zero-extended to their hardware width, except the 40-bit accumulators (a, b, a1s, b1s)
/// which are stored sign-extended to 64 bits, exactly as RegisterState keeps them.
struct State {
    uint64_t v[NFIELDS];
    uint64_t& operator[](int f) {
        return v[f];
    }
    uint64_t operator[](int f) const {
        return v[f];
    }
    bool operator==(const State& o) const {
        return std::memcmp(v, o.v, sizeof v) == 0;
    }
};

inline bool is_acc40(int f) {
    return descs()[f].bits == 40;
}
inline uint64_t sext40(uint64_t x) {
    x &= 0xFFFFFFFFFFull;
    return (x & 0x8000000000ull) ? (x | 0xFFFFFF0000000000ull) : x;
}
/// clamp a raw value into the field's hardware width (sign-extending accumulators)
inline uint64_t fit(int f, uint64_t x) {
    int b = descs()[f].bits;
    if (b == 40)
        return sext40(x);
    return x & ((1ull << b) - 1);
}

/// the state RegisterState() has after construction/Reset (defaults transcribed from register.h; checked
/// against the real thing by the shim self-test)
State reset_state();

// ---- text codec: only fields that differ from the reset state are written ---------------------------
std::string encode(const State& s);
void decode_into(State& s, const std::string& line); // line: "name=hex name=hex ..."
std::string diff(const State& a, const State& b, int max_items = 12);

} // namespace flat

// ---- C interface of a core shim (one copy built against /repo = sut_*, one against /verif/ref = ref_*) ------
extern "C" {
struct ShimAccess {
    uint32_t addr; // word address into the 0x40000-word shared memory
    uint16_t value; // value read / written
    uint8_t write;
    uint8_t oob; // address was outside the array (the access was suppressed)
};
struct ShimRunInfo {
    int outcome; // 0 ok, 1 UnimplementedException, 2 deliberate ASSERT/UNREACHABLE, 3 other exception
    char what[160];
    int oob; // number of suppressed out-of-range accesses
};
}

#define SHIM_API(PFX)                                                                                                  \
    extern "C" {                                                                                                       \
    void* PFX##new_core();                                                                                             \
    void PFX##set_state(void*, const flat::State*);                                                                    \
    void PFX##get_state(void*, flat::State*);                                                                          \
    uint8_t* PFX##mem(void*);                                                                                          \
    void PFX##run(void*, unsigned cycles, ShimRunInfo*);                                                               \
    void PFX##signal_interrupt(void*, unsigned line);                                                                  \
    void PFX##signal_vectored(void*, uint32_t address, int context_switch);                                            \
    void PFX##log_begin(void*);                                                                                        \
    const ShimAccess* PFX##log_end(void*, uint32_t* count);                                                            \
    int PFX##decode_info(uint16_t opcode, char* name, int name_len);                                                   \
    void PFX##set_mmio_base(void*, uint16_t base);                                                                     \
    void PFX##load_vector(void*, const void* test_case_bytes);                                                         \
    int PFX##vector_size();                                                                                            \
    void PFX##post_case(void*);                                                                                        \
    void PFX##pseudo_set(void*, int word, uint16_t value);                                                             \
    uint16_t PFX##pseudo_get(void*, int word);                                                                         \
    void PFX##regs_get(const void* register_state, flat::State*);                                                      \
    void PFX##regs_set(void* register_state, const flat::State*);                                                      \
    }

SHIM_API(sut_)
SHIM_API(ref_)
