#include "optable.h"

#include <cstring>
#include <map>
#include <type_traits>

#include "decoder.h"
#include "gen_recorder.h"
#include "operand.h"

namespace {

template <typename T>
std::string type_name() {
    std::string p = __PRETTY_FUNCTION__; // "... [T = Teakra::X]" / "[with T = X]"
    auto b = p.find("T = ");
    b = b == std::string::npos ? 0 : b + 4;
    auto e = p.find_first_of(";]", b);
    std::string n = p.substr(b, e - b);
    // operand aliases (using Alm = EnumOperand<AlmOp, ...>) print as the underlying template: shorten them to
    // "<enum>#<number of enumerators>" (Alm = AlmOp#16, Alu = AlmOp#8, Moda4 = ModaOp#16, StepZIDS = StepValue#4 ...)
    // and EnumAllOperand<X> to X
    auto strip_ns = [](std::string v) {
        auto c = v.rfind("::");
        return c == std::string::npos ? v : v.substr(c + 2);
    };
    if (n.rfind("EnumOperand<", 0) == 0) {
        size_t comma = n.find(',');
        std::string en = strip_ns(n.substr(12, comma - 12));
        size_t count = 0;
        for (char ch : n)
            count += ch == ',';
        return en + "#" + std::to_string(count);
    }
    if (n.rfind("EnumAllOperand<", 0) == 0)
        return strip_ns(n.substr(15, n.size() - 16));
    return strip_ns(n);
}

template <typename T>
uint64_t raw_value(const T& t) {
    if constexpr (std::is_class_v<T>) {
        static_assert(sizeof(T) == sizeof(u16), "operand types are a single u16");
        u16 s;
        std::memcpy(&s, &t, sizeof s);
        return s;
    } else {
        return (uint64_t)t;
    }
}

struct Recorder {
    using instruction_return_type = void;
    std::string rec_name__;
    std::vector<optable::Operand> rec_operands__;

    template <typename... A>
    void rec__(const char* n, A... a) {
        rec_name__ = n;
        rec_operands__.clear();
        (rec_operands__.push_back(optable::Operand{type_name<A>(), raw_value(a)}), ...);
    }
    void undefined(u16) {
        rec_name__ = "undefined";
        rec_operands__.clear();
    }
#define X(n)                                                                                                           \
    template <typename... A>                                                                                           \
    void n(A... a) {                                                                                                   \
        rec__(#n, a...);                                                                                                 \
    }
    VERIF_RECORDER_HANDLERS(X)
#undef X
};

struct Tables {
    std::vector<Matcher<Recorder>> table = GetDecodeTable<Recorder>();
    std::vector<optable::Info> infos;
    std::vector<std::vector<uint16_t>> by_entry;
    Tables() {
        infos.resize(0x10000);
        by_entry.resize(table.size());
        for (uint32_t w = 0; w < 0x10000; ++w)
            infos[w] = decode_one((uint16_t)w, 0);
        for (uint32_t w = 0; w < 0x10000; ++w)
            if (infos[w].entry >= 0)
                by_entry[infos[w].entry].push_back((uint16_t)w);
    }
    optable::Info decode_one(uint16_t w, uint16_t x) {
        optable::Info i;
        for (size_t e = 0; e < table.size(); ++e) {
            if (table[e].Matches(w)) {
                if (i.entry < 0)
                    i.entry = (int)e;
                ++i.matches;
            }
        }
        Recorder r;
        if (i.entry >= 0) {
            table[i.entry].call(r, w, x);
            i.expanded = table[i.entry].NeedExpansion();
        } else {
            r.undefined(w);
        }
        i.name = r.rec_name__;
        i.operands = r.rec_operands__;
        i.form = r.rec_name__ + "(";
        for (size_t k = 0; k < i.operands.size(); ++k)
            i.form += (k ? "," : "") + i.operands[k].type;
        i.form += ")";
        return i;
    }
};

Tables& tables() {
    static Tables* t = new Tables;
    return *t;
}

} // namespace

namespace optable {
Info decode(uint16_t opcode, uint16_t expansion) {
    return tables().decode_one(opcode, expansion);
}
const Info& info(uint16_t opcode) {
    return tables().infos[opcode];
}
int entry_count() {
    return (int)tables().table.size();
}
const std::vector<uint16_t>& words_of_entry(int e) {
    return tables().by_entry[e];
}
std::vector<uint16_t> words_named(const std::string& name, const std::string& form) {
    std::vector<uint16_t> out;
    for (uint32_t w = 0; w < 0x10000; ++w) {
        const Info& i = tables().infos[w];
        if (i.entry >= 0 && i.name == name && (form.empty() || i.form == form))
            out.push_back((uint16_t)w);
    }
    return out;
}
int find_word(const std::string& form, const std::vector<long>& values) {
    for (uint32_t w = 0; w < 0x10000; ++w) {
        const Info& i = tables().infos[w];
        if (i.entry < 0 || i.form != form || i.operands.size() < values.size())
            continue;
        bool ok = true;
        for (size_t k = 0; k < values.size() && ok; ++k) {
            const std::string& t = i.operands[k].type;
            bool second_word = t == "Imm16" || t == "MemImm16" || t == "MemR7Imm16" || t == "Address18_16" || t == "Address16";
            if (values[k] >= 0 && !second_word && (long)i.operands[k].value != values[k])
                ok = false;
        }
        if (ok)
            return (int)w;
    }
    return -1;
}
} // namespace optable
