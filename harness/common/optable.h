// optable.h -- the repository's decode table as data, obtained by instantiating its own
// GetDecodeTable<V>() with a recording visitor (no copy of the table lives in /verif).
#pragma once
#include <cstdint>
#include <string>
#include <vector>

namespace optable {

struct Operand {
    std::string type; // operand type name as written in operand.h (e.g. "Ax", "MemImm8", "bool", "SumBase")
    uint64_t value;   // raw field value (storage) or constant
};

struct Info {
    int entry = -1;         // index into the decode table, -1 = no entry matches (undefined word)
    int matches = 0;        // how many table entries match the word (must be <= 1)
    bool expanded = false;  // entry says: needs a second word
    std::string name;       // handler name ("undefined" when entry < 0)
    std::vector<Operand> operands; // as passed to the handler (Unused<> bits are not passed)
    std::string form;       // name(type,type,...) -- identifies the handler overload
};

/// Info for one first word, decoded with second word `expansion` (operand values of Imm16-like operands follow it).
Info decode(uint16_t opcode, uint16_t expansion = 0);

/// Static part (entry/name/form/expanded), built once for all 65536 words.
const Info& info(uint16_t opcode);

int entry_count();
/// all first words that decode to table entry e
const std::vector<uint16_t>& words_of_entry(int e);
/// all defined first words whose handler name is `name` (and optionally whose form string equals `form`)
std::vector<uint16_t> words_named(const std::string& name, const std::string& form = "");

/// first word with the given form whose operand values match (`-1` = any); returns -1 if none. For operands that live in
/// the second word the value is ignored.
int find_word(const std::string& form, const std::vector<long>& values);

} // namespace optable
