// vf.h -- tiny property-testing frame around rapidcheck shared by all harnesses.
//
//  * a harness defines Property<Case> objects: generator, deterministic check, text codec
//  * `vf::run(prop)` drives rapidcheck with explicit TestParams derived from --seed, records the
//    last failing (= minimal after shrinking) case, optionally minimises it further with a
//    harness-specific reducer, writes it as a self-contained replay file and confirms it 3x
//    through the replay path that bypasses rapidcheck completely
//  * counters (evaluations, distinct non-trivial hashes, classes, samples) go to a JSON report
//    that the python driver merges into /verif/evidence/<id>.json
//  * known findings: a failing case whose *signature* is listed via --known is counted, reported
//    and skipped so that the search continues behind it
#pragma once
#include <rapidcheck.h>

#include <algorithm>
#include <cinttypes>
#include <cstdint>
#include <cstdio>
#include <cstdlib>
#include <cstring>
#include <fstream>
#include <functional>
#include <map>
#include <set>
#include <sstream>
#include <string>
#include <unordered_set>
#include <vector>
#include <unistd.h>

extern "C" void __sanitizer_set_death_callback(void (*)(void)) __attribute__((weak));

namespace vf {

struct Result {
    bool ok = true;
    std::string sig; // root-cause signature (stable identity used by known_findings.txt)
    std::string why; // human readable
    static Result pass() {
        return {};
    }
    static Result fail(std::string sig, std::string why) {
        Result r;
        r.ok = false;
        r.sig = std::move(sig);
        r.why = std::move(why);
        return r;
    }
};

inline uint64_t mix64(uint64_t x) {
    x += 0x9E3779B97F4A7C15ull;
    x = (x ^ (x >> 30)) * 0xBF58476D1CE4E5B9ull;
    x = (x ^ (x >> 27)) * 0x94D049BB133111EBull;
    return x ^ (x >> 31);
}
inline uint64_t hash_bytes(const void* p, size_t n, uint64_t h = 0x1234567) {
    const unsigned char* c = (const unsigned char*)p;
    for (size_t i = 0; i < n; ++i)
        h = (h ^ c[i]) * 0x100000001B3ull;
    return mix64(h);
}
inline uint64_t hash_str(const std::string& s, uint64_t h = 0x1234567) {
    return hash_bytes(s.data(), s.size(), h);
}

/// deterministic expansion of one generated 64-bit value (splitmix64 stream)
struct Stream {
    uint64_t s;
    explicit Stream(uint64_t seed) : s(seed) {}
    uint64_t next() {
        s += 0x9E3779B97F4A7C15ull;
        uint64_t z = s;
        z = (z ^ (z >> 30)) * 0xBF58476D1CE4E5B9ull;
        z = (z ^ (z >> 27)) * 0x94D049BB133111EBull;
        return z ^ (z >> 31);
    }
    uint64_t bits(unsigned n) {
        return n >= 64 ? next() : (next() & ((1ull << n) - 1));
    }
    uint64_t below(uint64_t n) { // n >= 1
        return next() % n;
    }
    bool chance(unsigned num, unsigned den) {
        return below(den) < num;
    }
};

struct Ctx {
    std::string prop_id, report, replay, tier = "quick", faildir;
    uint64_t seed = 1;
    long cases = 1000;
    int worker = 0, workers = 1;
    std::set<std::string> known;
    // stats
    uint64_t evaluations = 0, nontrivial = 0;
    std::unordered_set<uint64_t> distinct;
    std::map<std::string, uint64_t> classes;
    std::vector<std::string> samples;
    std::map<std::string, std::pair<uint64_t, std::string>> known_hits; // sig -> (count, example why)
    std::vector<std::string> notes;
    struct Violation {
        std::string prop, sig, why, path;
        bool confirmed;
    };
    std::vector<Violation> violations;
    std::map<std::string, std::string> subchecks; // name -> "n cases, result"
    std::function<std::string()> current; // encodes the case being executed (for the death callback)
    std::string current_prop;
    bool exhaustive_all = true;
    std::map<std::string, bool> exhaustive;
};

inline Ctx& ctx() {
    static Ctx c;
    return c;
}

inline void klass(const std::string& name, uint64_t n = 1) {
    ctx().classes[name] += n;
}
inline void note(uint64_t case_hash, bool nontrivial) {
    Ctx& c = ctx();
    ++c.evaluations;
    if (nontrivial) {
        ++c.nontrivial;
        c.distinct.insert(case_hash);
    }
}
inline void sample(const std::string& s, size_t max = 8) {
    Ctx& c = ctx();
    if (c.samples.size() < max)
        c.samples.push_back(s);
}
inline void add_note(const std::string& s) {
    ctx().notes.push_back(s);
}

inline std::string json_escape(const std::string& s) {
    std::string o;
    for (unsigned char ch : s) {
        switch (ch) {
        case '"':
            o += "\\\"";
            break;
        case '\\':
            o += "\\\\";
            break;
        case '\n':
            o += "\\n";
            break;
        case '\t':
            o += "\\t";
            break;
        case '\r':
            o += "\\r";
            break;
        default:
            if (ch < 0x20 || ch >= 0x7F) {
                char b[8];
                std::snprintf(b, sizeof b, "\\u%04x", ch);
                o += b;
            } else
                o += (char)ch;
        }
    }
    return o;
}

inline void death_callback() {
    Ctx& c = ctx();
    if (c.report.empty())
        return;
    std::string text = "prop=" + c.current_prop + "\n";
    if (c.current) {
        try {
            text += c.current();
        } catch (...) {
            text += "<encode failed>\n";
        }
    }
    std::string path = c.report + ".crash";
    FILE* f = std::fopen(path.c_str(), "w");
    if (f) {
        std::fwrite(text.data(), 1, text.size(), f);
        std::fclose(f);
    }
}

inline void write_report();

inline void init(int argc, char** argv, const char* prop_id) {
    Ctx& c = ctx();
    c.prop_id = prop_id;
    for (int i = 1; i < argc; ++i) {
        std::string a = argv[i];
        auto val = [&]() -> std::string { return i + 1 < argc ? argv[++i] : ""; };
        if (a == "--report")
            c.report = val();
        else if (a == "--replay")
            c.replay = val();
        else if (a == "--tier")
            c.tier = val();
        else if (a == "--seed")
            c.seed = std::strtoull(val().c_str(), nullptr, 0);
        else if (a == "--cases")
            c.cases = std::strtol(val().c_str(), nullptr, 0);
        else if (a == "--worker")
            c.worker = std::atoi(val().c_str());
        else if (a == "--workers")
            c.workers = std::atoi(val().c_str());
        else if (a == "--faildir")
            c.faildir = val();
        else if (a == "--known") {
            std::stringstream ss(val());
            std::string k;
            while (std::getline(ss, k, ','))
                if (!k.empty())
                    c.known.insert(k);
        }
    }
    if (c.faildir.empty())
        c.faildir = "/verif/failures/" + c.prop_id;
    // the repository printf()s warnings on ordinary inputs; only the driver talks on stdout
    if (!std::getenv("VERIF_KEEP_STDOUT")) {
        std::fflush(stdout);
        if (!std::freopen("/dev/null", "w", stdout)) {
        }
    }
    if (__sanitizer_set_death_callback)
        __sanitizer_set_death_callback(death_callback);
}

template <class Case>
struct Property {
    std::string name;
    std::function<rc::Gen<Case>()> gen;
    std::function<Result(const Case&)> check; // deterministic, no global state leaks
    std::function<std::string(const Case&)> encode;
    std::function<Case(const std::string&)> decode;
    // optional extra reducer applied after rapidcheck's own shrinking
    std::function<Case(const Case&, const std::function<bool(const Case&)>&)> minimise;
    double share = 1.0; // fraction of --cases
    int max_size = 100;
    // confirmation of a failure before it counts: re-run the saved case up to confirm_runs times, it is confirmed once
    // confirm_min of them failed again. Deterministic properties use 3/3. A property whose cases run on real threads (C19) has a
    // sound oracle but an outcome that depends on the OS schedule: there one further failure among many re-runs confirms.
    int confirm_runs = 3, confirm_min = 3;
    long shrink_budget = 5000; // evaluations spent on shrinking a failure; afterwards every candidate counts as passing, so the
                               // library stops at the smallest failure found so far (bounds the cost of expensive properties)
    bool no_shrink = false; // schedule-dependent outcomes cannot be shrunk meaningfully: keep the case that failed
};

namespace detail {
template <class Case>
Result guarded(const Property<Case>& p, const Case& c) {
    try {
        return p.check(c);
    } catch (const rc::detail::CaseResult&) {
        throw;
    } catch (const rc::GenerationFailure&) {
        throw;
    } catch (const std::exception& e) {
        return Result::fail(std::string("exception:") + e.what(), std::string("uncaught exception: ") + e.what());
    }
}

inline bool write_file(const std::string& path, const std::string& text) {
    std::string dir = path.substr(0, path.rfind('/'));
    std::string cmd = "mkdir -p '" + dir + "'";
    if (std::system(cmd.c_str()) != 0)
        return false;
    std::ofstream f(path);
    f << text;
    return (bool)f;
}
} // namespace detail

/// Replay one file through a property, bypassing rapidcheck. Returns the Result.
template <class Case>
Result replay_text(const Property<Case>& p, const std::string& body) {
    Case c = p.decode(body);
    ctx().current_prop = p.name;
    ctx().current = [&]() { return p.encode(c); };
    Result r = detail::guarded(p, c);
    ctx().current = nullptr;
    return r;
}

/// In --replay mode: if the file belongs to this property, run it 3x and record the verdict.
template <class Case>
bool maybe_replay(const Property<Case>& p) {
    Ctx& c = ctx();
    if (c.replay.empty())
        return false;
    std::ifstream f(c.replay);
    std::stringstream ss;
    ss << f.rdbuf();
    std::string all = ss.str();
    std::string first = all.substr(0, all.find('\n'));
    if (first != "prop=" + p.name)
        return true; // replay mode, but not ours
    std::string body = all.substr(all.find('\n') + 1);
    int fails = 0;
    Result last;
    for (int i = 0; i < p.confirm_runs && fails < p.confirm_min; ++i) {
        Result r = replay_text(p, body);
        if (!r.ok) {
            ++fails;
            last = r;
        }
    }
    ++c.evaluations;
    const bool confirmed = fails >= p.confirm_min;
    if (confirmed) {
        if (c.known.count(last.sig)) {
            auto& k = c.known_hits[last.sig];
            ++k.first;
            k.second = last.why;
        } else {
            c.violations.push_back({p.name, last.sig, last.why, c.replay, true});
        }
    } else if (fails > 0) {
        add_note("replay of " + c.replay + " is flaky (" + std::to_string(fails) + "/" + std::to_string(p.confirm_runs) + " failures): " + last.why);
    }
    c.subchecks["replay:" + c.replay] = confirmed ? ("FAIL " + last.sig) : "pass";
    return true;
}

template <class Case>
void run(Property<Case>& p) {
    Ctx& c = ctx();
    if (maybe_replay(p))
        return;
    long n = (long)(c.cases * p.share);
    if (n < 1)
        n = 1;
    rc::detail::TestParams params;
    params.seed = mix64(c.seed * 1000003ull + hash_str(p.name) + (uint64_t)c.worker * 7919ull);
    params.maxSuccess = (int)n;
    params.maxSize = p.max_size;
    params.maxDiscardRatio = 20;
    params.disableShrinking = p.no_shrink;
    rc::detail::TestMetadata md;
    md.id = p.name;
    md.description = p.name;

    bool have_fail = false;
    Case last_fail{};
    Result last_res;
    c.current_prop = p.name;
    uint64_t known_skipped = 0;
    long shrink_evals = 0;
    if (const char* e = std::getenv("VERIF_SHRINK_BUDGET")) // (testing aid for the driver's time-budget path)
        p.shrink_budget = std::atol(e);
    auto gen = p.gen();
    auto result = rc::detail::checkTestable(
        [&]() {
            Case cs = *gen;
            if (have_fail && ++shrink_evals > p.shrink_budget)
                return; // shrink budget used up: keep the smallest failing case found so far
            c.current = [&]() { return p.encode(cs); };
            Result r = detail::guarded(p, cs);
            c.current = nullptr;
            if (!r.ok) {
                if (c.known.count(r.sig)) {
                    auto& k = c.known_hits[r.sig];
                    ++k.first;
                    if (k.second.empty())
                        k.second = r.why + "\n" + p.encode(cs);
                    ++known_skipped;
                    return;
                }
                if (!have_fail && !c.report.empty()) {
                    // keep the first (unshrunk) failing case on disk at once: should shrinking outlast the worker's time budget,
                    // the driver replays this file instead of calling the run inconclusive
                    std::ofstream ff(c.report + ".firstfail");
                    ff << "prop=" << p.name << "\n" << p.encode(cs) << "# sig=" << r.sig << "\n# (unshrunk: the worker ran out of its time budget while shrinking)\n";
                }
                have_fail = true;
                last_fail = cs;
                last_res = r;
                RC_FAIL(r.why);
            }
        },
        md, params);
    std::ostringstream msg;
    rc::detail::printResultMessage(result, msg);
    if (result.template is<rc::detail::SuccessResult>()) {
        c.subchecks[p.name] = std::to_string(result.template get<rc::detail::SuccessResult>().numSuccess) +
                              " cases ok" + (known_skipped ? (", " + std::to_string(known_skipped) + " hit known findings") : "");
        return;
    }
    if (result.template is<rc::detail::GaveUpResult>() || result.template is<rc::detail::Error>()) {
        // generator problem: this is a harness defect, never a violation
        add_note("property " + p.name + " inconclusive: " + msg.str());
        c.subchecks[p.name] = "inconclusive: " + msg.str();
        return;
    }
    if (!have_fail) {
        add_note("property " + p.name + ": rapidcheck reported failure without a recorded case: " + msg.str());
        c.subchecks[p.name] = "inconclusive: " + msg.str();
        return;
    }
    // extra reduction
    if (p.minimise) {
        std::string sig = last_res.sig;
        auto still = [&](const Case& cand) {
            Result r = detail::guarded(p, cand);
            if (!r.ok && r.sig == sig) {
                last_res = r;
                return true;
            }
            return false;
        };
        last_fail = p.minimise(last_fail, still);
        Result r = detail::guarded(p, last_fail);
        if (!r.ok)
            last_res = r;
    }
    std::string body = p.encode(last_fail);
    char hb[32];
    std::snprintf(hb, sizeof hb, "%016" PRIx64, hash_str(body));
    std::string path = c.faildir + "/" + p.name + "-" + hb + ".case";
    detail::write_file(path, "prop=" + p.name + "\n" + body + "# sig=" + last_res.sig + "\n# " +
                                 [&] {
                                     std::string w = last_res.why;
                                     std::replace(w.begin(), w.end(), '\n', ' ');
                                     return w;
                                 }() +
                                 "\n");
    int fails = 0;
    for (int i = 0; i < p.confirm_runs && fails < p.confirm_min; ++i) {
        Result r = replay_text(p, body);
        if (!r.ok)
            ++fails;
    }
    c.violations.push_back({p.name, last_res.sig, last_res.why, path, fails >= p.confirm_min});
    c.subchecks[p.name] = "FAIL " + last_res.sig;
    if (fails < p.confirm_min)
        add_note("failure of " + p.name + " did not reproduce (" + std::to_string(fails) + " of " + std::to_string(p.confirm_runs) + " re-runs, " +
                 std::to_string(p.confirm_min) + " needed)");
}

// ---- enumerated sub-checks (generator replaced by `for`) ---------------------------------------------------
/// Record the outcome of one enumerated case. `body` is the self-contained text of the case, `again` re-runs it.
/// Only the first failure per signature is kept (root causes, not inputs).
inline bool enum_result(const std::string& prop, const Result& r, const std::function<std::string()>& body,
                        const std::function<Result()>& again) {
    Ctx& c = ctx();
    if (r.ok)
        return true;
    if (c.known.count(r.sig)) {
        auto& k = c.known_hits[r.sig];
        ++k.first;
        if (k.second.empty())
            k.second = r.why;
        return true;
    }
    for (auto& v : c.violations)
        if (v.sig == r.sig)
            return false;
    if (c.violations.size() >= 6)
        return false;
    std::string b = body();
    char hb[32];
    std::snprintf(hb, sizeof hb, "%016" PRIx64, hash_str(b + r.sig));
    std::string path = c.faildir + "/" + prop + "-" + hb + ".case";
    std::string w = r.why;
    std::replace(w.begin(), w.end(), '\n', ' ');
    detail::write_file(path, "prop=" + prop + "\n" + b + (b.empty() || b.back() != '\n' ? "\n" : "") + "# sig=" + r.sig + "\n# " + w + "\n");
    int fails = 0;
    for (int i = 0; i < 3; ++i)
        if (!again().ok)
            ++fails;
    c.violations.push_back({prop, r.sig, r.why, path, fails == 3});
    c.subchecks[prop] = "FAIL " + r.sig;
    return false;
}

/// --replay for enumerated sub-checks: returns true when in replay mode (whether or not the file was ours)
inline bool enum_replay(const std::string& prop, const std::function<Result(const std::string&)>& run_body) {
    Ctx& c = ctx();
    if (c.replay.empty())
        return false;
    std::ifstream f(c.replay);
    std::stringstream ss;
    ss << f.rdbuf();
    std::string all = ss.str();
    std::string first = all.substr(0, all.find('\n'));
    if (first != "prop=" + prop)
        return true;
    std::string body = all.substr(all.find('\n') + 1);
    int fails = 0;
    Result last;
    for (int i = 0; i < 3; ++i) {
        Result r = run_body(body);
        if (!r.ok) {
            ++fails;
            last = r;
        }
    }
    ++c.evaluations;
    if (fails == 3) {
        if (c.known.count(last.sig)) {
            auto& k = c.known_hits[last.sig];
            ++k.first;
            k.second = last.why;
        } else
            c.violations.push_back({prop, last.sig, last.why, c.replay, true});
    }
    c.subchecks["replay:" + c.replay] = fails == 3 ? ("FAIL " + last.sig) : "pass";
    return true;
}

inline void write_report() {
    Ctx& c = ctx();
    if (c.report.empty())
        return;
    std::ostringstream o;
    o << "{\n";
    o << " \"property_id\": \"" << c.prop_id << "\",\n";
    o << " \"worker\": " << c.worker << ",\n";
    o << " \"seed\": " << c.seed << ",\n";
    o << " \"evaluations\": " << c.evaluations << ",\n";
    o << " \"nontrivial\": " << c.nontrivial << ",\n";
    o << " \"distinct_local\": " << c.distinct.size() << ",\n";
    o << " \"classes\": {";
    bool first = true;
    for (auto& kv : c.classes) {
        o << (first ? "" : ", ") << "\"" << json_escape(kv.first) << "\": " << kv.second;
        first = false;
    }
    o << "},\n \"subchecks\": {";
    first = true;
    for (auto& kv : c.subchecks) {
        o << (first ? "" : ", ") << "\"" << json_escape(kv.first) << "\": \"" << json_escape(kv.second) << "\"";
        first = false;
    }
    o << "},\n \"exhaustive\": {";
    first = true;
    for (auto& kv : c.exhaustive) {
        o << (first ? "" : ", ") << "\"" << json_escape(kv.first) << "\": " << (kv.second ? "true" : "false");
        first = false;
    }
    o << "},\n \"samples\": [";
    first = true;
    for (auto& s : c.samples) {
        o << (first ? "" : ", ") << "\"" << json_escape(s) << "\"";
        first = false;
    }
    o << "],\n \"notes\": [";
    first = true;
    for (auto& s : c.notes) {
        o << (first ? "" : ", ") << "\"" << json_escape(s) << "\"";
        first = false;
    }
    o << "],\n \"known_hits\": [";
    first = true;
    for (auto& kv : c.known_hits) {
        o << (first ? "" : ", ") << "{\"sig\": \"" << json_escape(kv.first) << "\", \"count\": " << kv.second.first
          << ", \"example\": \"" << json_escape(kv.second.second) << "\"}";
        first = false;
    }
    o << "],\n \"violations\": [";
    first = true;
    for (auto& v : c.violations) {
        o << (first ? "" : ", ") << "{\"prop\": \"" << json_escape(v.prop) << "\", \"sig\": \"" << json_escape(v.sig)
          << "\", \"why\": \"" << json_escape(v.why) << "\", \"path\": \"" << json_escape(v.path)
          << "\", \"confirmed\": " << (v.confirmed ? "true" : "false") << "}";
        first = false;
    }
    o << "]\n}\n";
    std::ofstream f(c.report);
    f << o.str();
    f.close();
    // distinct hashes, binary, for exact merging across workers
    std::string hp = c.report + ".hashes";
    FILE* hf = std::fopen(hp.c_str(), "wb");
    if (hf) {
        std::vector<uint64_t> v(c.distinct.begin(), c.distinct.end());
        if (!v.empty())
            std::fwrite(v.data(), sizeof(uint64_t), v.size(), hf);
        std::fclose(hf);
    }
}

inline int finish() {
    write_report();
    Ctx& c = ctx();
    for (auto& v : c.violations)
        if (v.confirmed)
            return 1;
    return 0;
}

// ---- small text codec helpers -------------------------------------------------------------------
inline std::string hex(uint64_t v) {
    char b[32];
    std::snprintf(b, sizeof b, "%" PRIx64, v);
    return b;
}
inline std::vector<std::string> split_ws(const std::string& s) {
    std::vector<std::string> out;
    std::istringstream ss(s);
    std::string t;
    while (ss >> t)
        out.push_back(t);
    return out;
}
inline std::vector<std::string> lines(const std::string& s) {
    std::vector<std::string> out;
    std::istringstream ss(s);
    std::string l;
    while (std::getline(ss, l))
        if (!l.empty() && l[0] != '#')
            out.push_back(l);
    return out;
}
inline uint64_t unhex(const std::string& s) {
    return std::strtoull(s.c_str(), nullptr, 16);
}

/// rapidcheck's inRange collapses at small sizes; this one ignores size
template <class T>
rc::Gen<T> range(T lo, T hi_exclusive) {
    return rc::gen::resize(100000, rc::gen::inRange<T>(lo, hi_exclusive));
}
/// a "boundary biased" 16 bit generator
inline rc::Gen<uint16_t> u16b() {
    return rc::gen::weightedOneOf<uint16_t>({{3, rc::gen::element<uint16_t>(0, 1, 2, 3, 0x7FFF, 0x8000, 0xFFFF, 0xFFFE, 0x00FF, 0x0100)},
                                             {5, rc::gen::map(rc::gen::resize(100, rc::gen::arbitrary<uint16_t>()), [](uint16_t v) { return v; })}});
}

} // namespace vf
