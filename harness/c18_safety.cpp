// C18 -- no guest program or register write makes the emulator touch memory out of bounds.
// Structured operation sequences on a real Teakra facade (ASan + UBSan + libstdc++ assertions, stack-use-after-return on):
// arbitrary 16-bit values to every MMIO offset through both paths, arbitrary programs (first words stratified over the
// decode table) at arbitrary 18-bit addresses with arbitrary register states within hardware widths, DMA / AHBM
// configurations with arbitrary addresses, sizes and spaces, in-contract host calls, Run(n <= 256).
// Oracle: (1) the access observer hook sees only word addresses < 0x40000 (exact bounds, independent of what happens to
// lie behind the array); (2) no sanitizer report / libstdc++ assertion (the worker process would die; the driver turns
// that into a violation with the saved case); (3) every call returns, or throws UnimplementedException, or the hook's
// deliberate-assert exception -- anything else is a violation. A per-case access budget bounds legal-but-endless work
// (a DMA of 2^48 elements); exceeding it abandons the case and is never a violation.
// The same operation decoder is driven by libFuzzer when built with -DC18_LIBFUZZER (thorough tier).
#include <map>

#include "icase.h"
#include "optable.h"
#include "shared_memory.h"
#include "sysinst.h"
#include "vf.h"

#ifdef C18_LIBFUZZER
#include <fuzzer/FuzzedDataProvider.h>
#endif

namespace {

using flat::State;
using sysinst::Sys;

struct BudgetExceeded {};

uint64_t g_accesses = 0, g_budget = 1u << 14;
uint64_t g_oob = 0;
uint32_t g_first_oob = 0;
bool g_first_oob_write = false;

bool observer(uint32_t word_address, bool is_write) {
    if (++g_accesses > g_budget)
        throw BudgetExceeded{};
    if (word_address >= 0x40000) {
        if (g_oob++ == 0) {
            g_first_oob = word_address;
            g_first_oob_write = is_write;
        }
        return false; // suppressed, so that the process survives to report it
    }
    return true;
}

enum Kind : int { MmioW, MmioR, DataW, DataR, ProgW, Poke, Run, Host, Code, DmaGo, NKIND };
const char* kKindName[] = {"mmiow", "mmior", "dataw", "datar", "progw", "poke", "run", "host", "code", "dmago"};
struct Op {
    int kind = 0;
    uint64_t a = 0;
    uint32_t b = 0, c = 0;
};
using Case = std::vector<Op>;

Sys& sys() {
    static Sys* s = [] {
        Sys* p = new Sys;
        Teakra::SharedMemory::verif_observer = observer;
        p->on_external = [] {
            if (++g_accesses > g_budget)
                throw BudgetExceeded{};
        };
        return p;
    }();
    return *s;
}

std::string encode(const Case& c) {
    std::string s;
    for (auto& op : c)
        s += std::string(kKindName[op.kind]) + " " + vf::hex(op.a) + " " + vf::hex(op.b) + " " + vf::hex(op.c) + "\n";
    return s;
}
Case decode(const std::string& text) {
    Case c;
    for (auto& l : vf::lines(text)) {
        auto t = vf::split_ws(l);
        if (t.size() < 4)
            continue;
        Op op;
        for (int k = 0; k < NKIND; ++k)
            if (t[0] == kKindName[k])
                op.kind = k;
        op.a = vf::unhex(t[1]);
        op.b = (uint32_t)vf::unhex(t[2]);
        op.c = (uint32_t)vf::unhex(t[3]);
        c.push_back(op);
    }
    return c;
}

// ---- executing one operation -----------------------------------------------------------------------------------------------
std::string g_where;

sysinst::Outcome apply(Sys& s, const Op& op) {
    return s.guarded([&] {
        switch (op.kind) {
        case MmioW: {
            // DMA starts go through `dmago`, which bounds the work of transfers that touch no memory at all (both spaces
            // unimplemented: the emulator would spin for up to 2^48 iterations without a single access the budget could count)
            uint16_t v = (uint16_t)op.b;
            if (((uint16_t)op.a & 0x7FF) == 0x1DE && v == 0x40C0)
                v = 0x40C1;
            s.t->MMIOWrite((uint16_t)op.a, v);
            break;
        }
        case MmioR:
            (void)s.t->MMIORead((uint16_t)op.a);
            break;
        case DataW:
            s.t->DataWrite((uint16_t)op.a, (uint16_t)(op.b == 0x40C0 ? 0x40C1 : op.b), op.c & 1);
            break;
        case DataR:
            (void)s.t->DataRead((uint16_t)op.a, op.c & 1);
            break;
        case ProgW:
            s.t->ProgramWrite((uint32_t)(op.a % 0x40000), (uint16_t)op.b); // in contract: program address < 0x40000
            break;
        case Poke: {
            vf::Stream st(op.a);
            State f = icase::gen_state(st, 8);
            f[flat::F_prpage] = (op.b & 0x30) ? 0 : (op.b & 0xF); // any 4-bit program page, mostly 0
            switch (op.c % 6) {
            case 0:
                f[flat::F_pc] = 0x3FFF8 + st.below(8);
                break;
            case 1:
                f[flat::F_pc] = st.below(4);
                break;
            case 2:
                f[flat::F_pc] = 0xFFFC + st.below(8);
                break;
            default:
                f[flat::F_pc] = st.below(0x40000);
                break;
            }
            s.set_regs(f);
            break;
        }
        case Run:
            s.t->Run(1 + (unsigned)(op.a % 256));
            break;
        case Host:
            switch (op.a % 16) {
            case 0:
                s.t->SendData((uint8_t)(op.b % 3), (uint16_t)op.c);
                break;
            case 1:
                (void)s.t->RecvData((uint8_t)(op.b % 3));
                break;
            case 2:
                s.t->SetSemaphore((uint16_t)op.c);
                break;
            case 3:
                s.t->ClearSemaphore((uint16_t)op.c);
                break;
            case 4:
                s.t->MaskSemaphore((uint16_t)op.c);
                break;
            case 5:
                (void)s.t->AHBMRead16(op.c * 2654435761u);
                break;
            case 6:
                s.t->AHBMWrite16(op.c * 2654435761u, (uint16_t)op.b);
                break;
            case 7:
                (void)s.t->AHBMRead32(op.c * 2654435761u);
                break;
            case 8:
                s.t->AHBMWrite32(op.c * 2654435761u, op.b * 65537u);
                break;
            case 9:
                (void)s.t->DMAChan0GetSrcHigh();
                (void)s.t->DMAChan0GetDstHigh();
                break;
            case 10:
                (void)s.t->AHBMGetUnitSize((uint16_t)(op.b % 3));
                (void)s.t->AHBMGetDirection((uint16_t)(op.b % 3));
                (void)s.t->AHBMGetDmaChannel((uint16_t)(op.b % 3));
                break;
            case 11:
                (void)s.t->DataReadA32(op.c * 2654435761u);
                s.t->DataWriteA32(op.c * 40503u, (uint16_t)op.b);
                break;
            case 12:
                (void)s.t->PeekRecvData((uint8_t)(op.b % 3));
                (void)s.t->RecvDataIsReady((uint8_t)(op.b % 3));
                (void)s.t->SendDataIsEmpty((uint8_t)(op.b % 3));
                (void)s.t->GetSemaphore();
                break;
            default:
                (void)s.t->ProgramRead((uint32_t)(op.c % 0x40000));
                break;
            }
            break;
        case Code: {
            // a short program of stratified first words + generated second words at the current pc (if it is in range)
            vf::Stream st(op.a);
            uint32_t pc = (uint32_t)s.regs()[flat::F_pc];
            unsigned n = 1 + (op.b % 12);
            for (unsigned i = 0; i < n; ++i) {
                uint32_t at = pc + i;
                if (at >= 0x40000)
                    break;
                uint16_t w;
                if (st.chance(1, 5))
                    w = (uint16_t)st.bits(16);
                else {
                    const auto& ws = optable::words_of_entry((int)st.below(optable::entry_count()));
                    w = ws[st.below(ws.size())];
                }
                s.t->ProgramWrite(at, w);
            }
            break;
        }
        case DmaGo: {
            vf::Stream st(op.a);
            auto wild16 = [&] { return (uint16_t)(st.chance(1, 3) ? st.bits(16) : (st.chance(1, 2) ? st.below(8) : (0xFFFF - st.below(4)))); };
            s.t->MMIOWrite(0x1BE, (uint16_t)(st.chance(1, 4) ? st.bits(16) : st.below(8)));
            s.t->MMIOWrite(0x1C0, wild16());
            s.t->MMIOWrite(0x1C2, (uint16_t)(st.chance(1, 2) ? st.below(4) : st.bits(16)));
            s.t->MMIOWrite(0x1C4, wild16());
            s.t->MMIOWrite(0x1C6, (uint16_t)(st.chance(1, 2) ? st.below(4) : st.bits(16)));
            s.t->MMIOWrite(0x1C8, (uint16_t)(st.chance(3, 4) ? st.below(40) : st.bits(16)));
            s.t->MMIOWrite(0x1CA, (uint16_t)(st.chance(3, 4) ? st.below(6) : st.bits(16)));
            s.t->MMIOWrite(0x1CC, (uint16_t)(st.chance(3, 4) ? st.below(4) : st.bits(16)));
            for (uint16_t o = 0x1CE; o <= 0x1D8; o += 2)
                s.t->MMIOWrite(o, wild16());
            static const uint16_t spaces[] = {0, 0, 0, 7, 7, 1, 5, 2, 15};
            uint16_t ss = spaces[st.below(9)], ds = spaces[st.below(9)];
            // (ext -> ext goes through one AHBM channel whose burst queue then feeds itself: with a partly filled queue the
            //  transfer performs no external access at all, so it is bounded like the no-memory case)
            if ((ss != 0 && ss != 7 && ds != 0 && ds != 7) || (ss == 7 && ds == 7)) {
                // neither side touches memory: nothing the work budget could count, so keep the element count small
                s.t->MMIOWrite(0x1C8, (uint16_t)st.below(64));
                s.t->MMIOWrite(0x1CA, (uint16_t)st.below(16));
                s.t->MMIOWrite(0x1CC, (uint16_t)st.below(8));
            }
            s.t->MMIOWrite(0x1DA, (uint16_t)(ss | (ds << 4) | (st.bits(1) << 10) | (st.bits(1) << 9)));
            for (uint16_t i = 0; i < 3; ++i) {
                // documented unit sizes / burst types only: with the undocumented code 3 an external side performs no access
                // at all (it only prints), so nothing would bound a 2^48-element transfer; code 3 is still exercised by the
                // single host AHBM accessor calls above
                s.t->MMIOWrite(0x0E2 + 6 * i, (uint16_t)((st.below(3) << 4) | (st.below(3) << 1) | st.bits(1)));
                s.t->MMIOWrite(0x0E4 + 6 * i, (uint16_t)(st.bits(1) << 8));
                s.t->MMIOWrite(0x0E6 + 6 * i, (uint16_t)(st.chance(1, 2) ? st.bits(8) : st.bits(16)));
            }
            s.t->MMIOWrite(0x1DE, 0x40C0);
            break;
        }
        }
    });
}

vf::Result check(const Case& cs) {
    Sys& s = sys();
    bool abandoned = false;
    g_accesses = 0;
    g_oob = 0;
    try {
        s.t->Reset();
    } catch (const BudgetExceeded&) {
    }
    s.log.clear();
    s.ext.bytes.clear();
    g_accesses = 0;
    bool ran = false;
    std::string trace;
    for (size_t i = 0; i < cs.size() && !abandoned; ++i) {
        const Op& op = cs[i];
        trace += std::string(kKindName[op.kind]) + " ";
        if (std::getenv("VERIF_DEBUG"))
            std::fprintf(stderr, "op %zu %s accesses=%llu\n", i, kKindName[op.kind], (unsigned long long)g_accesses);
        sysinst::Outcome o;
        try {
            o = apply(s, op);
        } catch (const BudgetExceeded&) {
            abandoned = true;
            vf::klass("case abandoned: access budget (legal but endless work)");
            break;
        }
        if (op.kind == Run || op.kind == MmioW || op.kind == DmaGo)
            ran = true;
        if (g_oob) {
            std::string sig = std::string("C18:oob:") + kKindName[op.kind] + (g_first_oob_write ? ":write" : ":read");
            return vf::Result::fail(sig, std::string(g_first_oob_write ? "write to" : "read of") + " DSP memory word " + vf::hex(g_first_oob) +
                                             " (the array has 0x40000 words) during op " + std::to_string(i) + " (" + trace + ")");
        }
        if (o.kind == 3)
            return vf::Result::fail(std::string("C18:exception:") + kKindName[op.kind] + ":" + o.what.substr(0, 40),
                                    "op " + std::to_string(i) + " ended with an exception that is neither 'unimplemented' nor a deliberate assertion: " + o.what +
                                        " (" + trace + ")");
        if (o.kind == 1)
            vf::klass("outcome: UnimplementedException");
        else if (o.kind == 2)
            vf::klass("outcome: deliberate assertion " + o.what.substr(0, o.what.find('@')));
    }
    // leave the instance usable for the next case
    try {
        g_accesses = 0;
        s.t->Reset();
    } catch (const BudgetExceeded&) {
    }
#ifndef C18_LIBFUZZER
    vf::note(vf::hash_str(encode(cs)), ran && !abandoned);
    if (ran && !abandoned && cs.size() >= 3 && cs.size() <= 8 && vf::ctx().samples.size() < 6)
        vf::sample(encode(cs));
#else
    (void)ran;
#endif
    return vf::Result::pass();
}

#ifndef C18_LIBFUZZER
rc::Gen<Op> genOp() {
    using namespace rc;
    auto offGen = gen::weightedOneOf<uint64_t>({{3, vf::range<uint64_t>(0, 0x800)},
                                                {5, gen::element<uint64_t>(0x20, 0x22, 0x24, 0x26, 0x28, 0x2C, 0x30, 0x3E, 0xC0, 0xC2, 0xCC, 0xCE, 0xD0, 0xD4, 0xD6, 0xE2, 0xE4, 0xE6,
                                                                          0x10E, 0x110, 0x112, 0x114, 0x11A, 0x11E, 0x184, 0x1BE, 0x1C0, 0x1C2, 0x1C6, 0x1C8, 0x1DA, 0x1DE, 0x200,
                                                                          0x202, 0x204, 0x206, 0x20C, 0x212, 0x214, 0x24E, 0x250, 0x2BE, 0x2C2, 0x2C6, 0x2CA, 0x33E, 0x346)},
                                                {1, vf::range<uint64_t>(0, 0x10000)}});
    auto val = gen::weightedOneOf<uint32_t>({{2, gen::element<uint32_t>(0, 1, 7, 8, 9, 0xFFFF, 0x8000, 0x40C0, 0x0400, 0x0410, 0x041C, 0x0700)},
                                             {3, gen::map(vf::u16b(), [](uint16_t v) { return (uint32_t)v; })}});
    auto big = gen::resize(100, gen::arbitrary<uint64_t>());
    auto small = vf::range<uint32_t>(0, 4096);
    return gen::oneOf(gen::map(gen::tuple(offGen, val), [](std::tuple<uint64_t, uint32_t> t) { return Op{MmioW, std::get<0>(t), std::get<1>(t), 0}; }),
                      gen::map(gen::tuple(offGen, val), [](std::tuple<uint64_t, uint32_t> t) { return Op{MmioW, std::get<0>(t), std::get<1>(t), 0}; }),
                      gen::map(offGen, [](uint64_t o) { return Op{MmioR, o, 0, 0}; }),
                      gen::map(gen::tuple(big, val, small), [](std::tuple<uint64_t, uint32_t, uint32_t> t) { return Op{DataW, std::get<0>(t) & 0xFFFF, std::get<1>(t), std::get<2>(t)}; }),
                      gen::map(gen::tuple(big, small), [](std::tuple<uint64_t, uint32_t> t) { return Op{DataR, std::get<0>(t) & 0xFFFF, 0, std::get<1>(t)}; }),
                      gen::map(gen::tuple(big, val), [](std::tuple<uint64_t, uint32_t> t) { return Op{ProgW, std::get<0>(t), std::get<1>(t), 0}; }),
                      gen::map(gen::tuple(big, small, small), [](std::tuple<uint64_t, uint32_t, uint32_t> t) { return Op{Poke, std::get<0>(t), std::get<1>(t), std::get<2>(t)}; }),
                      gen::map(big, [](uint64_t v) { return Op{Run, v, 0, 0}; }), gen::map(big, [](uint64_t v) { return Op{Run, v, 0, 0}; }),
                      gen::map(gen::tuple(big, small, val), [](std::tuple<uint64_t, uint32_t, uint32_t> t) { return Op{Host, std::get<0>(t), std::get<1>(t), std::get<2>(t)}; }),
                      gen::map(gen::tuple(big, small), [](std::tuple<uint64_t, uint32_t> t) { return Op{Code, std::get<0>(t), std::get<1>(t), 0}; }),
                      gen::map(gen::tuple(big, small), [](std::tuple<uint64_t, uint32_t> t) { return Op{Code, std::get<0>(t), std::get<1>(t), 0}; }),
                      gen::map(big, [](uint64_t v) { return Op{DmaGo, v, 0, 0}; }));
}
#endif

} // namespace

#ifdef C18_LIBFUZZER
extern "C" int LLVMFuzzerTestOneInput(const uint8_t* data, size_t size) {
    static bool once = [] {
        // the repository printf()s warnings on ordinary inputs
        if (!std::freopen("/dev/null", "w", stdout)) {
        }
        return true;
    }();
    (void)once;
    FuzzedDataProvider fdp(data, size);
    Case c;
    while (fdp.remaining_bytes() > 0 && c.size() < 64) {
        Op op;
        op.kind = fdp.ConsumeIntegralInRange<int>(0, NKIND - 1);
        op.a = fdp.ConsumeIntegral<uint64_t>();
        op.b = fdp.ConsumeIntegral<uint16_t>();
        op.c = fdp.ConsumeIntegral<uint16_t>();
        if (op.kind == MmioW || op.kind == MmioR)
            op.a &= 0xFFFF;
        c.push_back(op);
    }
    vf::Result r = check(c);
    if (!r.ok) {
        std::fprintf(stderr, "VERIF-VIOLATION sig=%s\n%s\n%s", r.sig.c_str(), r.why.c_str(), encode(c).c_str());
        __builtin_trap();
    }
    return 0;
}
#else
int main(int argc, char** argv) {
    vf::init(argc, argv, "C18");
    vf::Property<Case> p;
    p.name = "memory_safety";
    p.gen = [] { return rc::gen::container<Case>(genOp()); };
    p.check = check;
    p.encode = encode;
    p.decode = decode;
    p.max_size = 40;
    vf::run(p);

    // one instruction on one generated full-width register state (same oracle): state pokes are boundary-biased (shift counts at
    // +-40, accumulators at the 32/40-bit edges, pc at the ends of the program space), first words are stratified over the table
    vf::Property<Case> q;
    q.name = "single_step";
    q.gen = [] {
        using namespace rc;
        return gen::map(gen::tuple(gen::resize(100, gen::arbitrary<uint64_t>()), gen::resize(100, gen::arbitrary<uint64_t>()), vf::range<unsigned>(0, 12)),
                        [](std::tuple<uint64_t, uint64_t, unsigned> t) {
                            Case c(3);
                            c[0].kind = Poke;
                            c[0].a = std::get<0>(t);
                            c[0].b = 0x10; // program page 0
                            c[0].c = std::get<2>(t);
                            c[1].kind = Code;
                            c[1].a = std::get<1>(t);
                            c[1].b = 1; // the instruction and a following word
                            c[2].kind = Run;
                            c[2].a = 0; // one cycle
                            return c;
                        });
    };
    q.check = check;
    q.encode = encode;
    q.decode = decode;
    q.share = 10.0;
    vf::run(q);
    return vf::finish();
}
#endif
