// Cycle-exact timer model written from the statement of property C15 (not from timer.cpp).
#pragma once
#include <cstdint>

namespace model {

struct Timer {
    enum Mode { Single = 0, AutoRestart = 1, FreeRunning = 2, EventCount = 3 };
    unsigned mode = Single;
    uint32_t start = 0;
    uint32_t counter = 0;
    bool pause = false;
    bool mu = false;     // mirror update enable
    uint32_t mirror = 0; // value visible in the COUNTER_L/H registers
    bool mirror_may_be_counter = false; // MU set but counter did not move in the last op: both stale and fresh are acceptable
    uint64_t irqs = 0;

    void moved() {
        if (mu) {
            mirror = counter;
        }
    }

    // one DSP cycle
    void tick() {
        if (pause || mode == EventCount)
            return;
        if (counter == 0) {
            if (mode == AutoRestart) {
                counter = start; // reload on the cycle after reaching zero; a reload is not an interrupt
                moved();
            } else if (mode == FreeRunning) {
                counter = 0xFFFFFFFFu;
                moved();
            }
            // Single: stays stopped
        } else {
            --counter;
            moved();
            if (counter == 0)
                ++irqs; // exactly on 1 -> 0
        }
    }

    // one event write (event-count mode only)
    void tick_event() {
        if (pause || mode != EventCount || counter == 0)
            return;
        --counter;
        moved();
        if (counter == 0)
            ++irqs;
    }

    // number of cycles that can pass without an interrupt being raised (UINT64_MAX = unbounded)
    uint64_t cycles_before_interrupt_cycle() const {
        if (pause || mode == EventCount)
            return UINT64_MAX;
        if (counter == 0) {
            if (mode == Single)
                return UINT64_MAX;
            uint64_t reload = mode == AutoRestart ? start : 0xFFFFFFFFu;
            if (reload == 0)
                return UINT64_MAX; // reloads 0 forever, never fires
            return reload;         // 1 reload cycle + (reload-1) decrements, the next one fires
        }
        return (uint64_t)counter - 1;
    }

    // k cycles at once; must equal k x tick()
    void advance(uint64_t k) {
        if (k <= 8192) {
            for (uint64_t i = 0; i < k; ++i)
                tick();
            return;
        }
        // closed form, only valid when no interrupt lies inside (caller guarantees k <= cycles_before_interrupt_cycle)
        if (pause || mode == EventCount)
            return;
        if (counter == 0) {
            if (mode == Single)
                return;
            uint32_t reload = mode == AutoRestart ? start : 0xFFFFFFFFu;
            if (reload == 0) {
                moved();
                return;
            }
            counter = (uint32_t)(reload - (k - 1));
        } else {
            counter = (uint32_t)(counter - k);
        }
        moved();
    }
};

} // namespace model
