// ref_addrgen.h -- address-generator model written from the statement of property C10 (not from StepAddress()).
#pragma once
#include <optional>

#include "flat_state.h"

namespace raddr {

using flat::State;

enum Step { Zero = 0, Inc = 1, Dec = 2, PlusS = 3, Inc2 = 4, Dec2 = 5, Inc2M2 = 6, Dec2M2 = 7 };

inline uint16_t bitrev16(uint16_t v) {
    uint16_t r = 0;
    for (int i = 0; i < 16; ++i)
        r |= ((v >> i) & 1) << (15 - i);
    return r;
}

/// the address an access through Rn uses, given the *pre-modified* register value
inline uint16_t access_address(const State& s, unsigned unit, uint16_t r_pre) {
    if (s[flat::F_br + unit] && !s[flat::F_m + unit])
        return bitrev16(r_pre); // bit reversal applies with modulo off
    return r_pre;
}

inline bool is_two(Step k) {
    return k >= Inc2;
}

/// the configured "+s" step as a signed amount for linear stepping (modulo off)
inline int plus_s_linear(const State& s, unsigned unit) {
    bool j = unit >= 4;
    uint16_t step7 = (uint16_t)(j ? s[flat::F_stepj] : s[flat::F_stepi]);
    uint16_t step16 = (uint16_t)(j ? s[flat::F_stepj0] : s[flat::F_stepi0]);
    bool use16 = (s[flat::F_br + unit] && !s[flat::F_m + unit]) || (s[flat::F_stp16] && !s[flat::F_cmd]);
    if (use16) {
        // Teak mode with 16-bit steps: a register whose modulo bit is set takes only the low nine bits of the step (sign-extended),
        // also when the modulo arithmetic itself is bypassed by the instruction or by bit reversal (behaviour of the hardware-validated
        // code, kept as a regression oracle)
        if (s[flat::F_stp16] && !s[flat::F_cmd] && s[flat::F_m + unit]) {
            int v = step16 & 0x1FF;
            return (v & 0x100) ? v - 0x200 : v;
        }
        return (int)(int16_t)step16;
    }
    return (step7 & 0x40) ? (int)step7 - 128 : (int)step7;
}

/// Post-modified register value, or nullopt where the property makes no statement (modulo with steps other than +-1,
/// start outside the buffer, ...). `dmod` = the instruction disables modulo for this access.
inline std::optional<uint16_t> step(const State& s, unsigned unit, uint16_t r, Step k, bool dmod) {
    bool endptr = (unit == 3 && s[flat::F_epi]) || (unit == 7 && s[flat::F_epj]);
    if (endptr && !is_two(k))
        return (uint16_t)0; // r3/r7 in end-pointer mode are zeroed by any non-+-2 step
    bool modulo = s[flat::F_m + unit] && !s[flat::F_br + unit] && !dmod;
    if (k == Zero)
        return r; // a zero step never changes the register
    if (!modulo) {
        int d;
        switch (k) {
        case Inc:
            d = 1;
            break;
        case Dec:
            d = -1;
            break;
        case PlusS:
            d = plus_s_linear(s, unit);
            break;
        case Inc2:
        case Inc2M2:
            d = 2;
            break;
        default:
            d = -2;
            break;
        }
        return (uint16_t)(r + d);
    }
    // a configured step of 0 is a zero step whatever the addressing mode: the register does not move
    if (k == PlusS) {
        bool j = unit >= 4;
        bool use16 = s[flat::F_stp16] && !s[flat::F_cmd];
        uint16_t configured = (uint16_t)(use16 ? (j ? s[flat::F_stepj0] : s[flat::F_stepi0]) : (j ? s[flat::F_stepj] : s[flat::F_stepi]));
        if (configured == 0)
            return r;
    }
    // modulo addressing: only +-1 inside the buffer is specified
    if (k != Inc && k != Dec)
        return std::nullopt;
    unsigned mod = (unsigned)(unit >= 4 ? s[flat::F_modj] : s[flat::F_modi]) & 0x1FF;
    unsigned bits = 0;
    while ((1u << bits) < mod + 1)
        ++bits; // ceil(log2(mod + 1))
    uint16_t mask = (uint16_t)((1u << bits) - 1);
    uint16_t base = r & ~mask, off = r & mask;
    if (off > mod)
        return std::nullopt; // start outside the buffer
    if (k == Inc)
        return (uint16_t)(off == mod ? base : r + 1);
    return (uint16_t)(off == 0 ? (base | mod) : r - 1);
}

} // namespace raddr
