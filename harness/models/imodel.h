// imodel.h -- pieces shared by the instruction-level reference models (C03, C04, C08, C09, C10): condition codes,
// the memory image a case sees, and linear [Rn] post-modification.
#pragma once
#include <string>

#include "icase.h"
#include "ref_alu.h"

namespace imodel {

using flat::State;

inline bool cond_pass(const State& s, unsigned c) {
    switch (c) {
    case 0:
        return true;
    case 1:
        return s[flat::F_fz] == 1;
    case 2:
        return s[flat::F_fz] == 0;
    case 3:
        return s[flat::F_fz] == 0 && s[flat::F_fm] == 0;
    case 4:
        return s[flat::F_fm] == 0;
    case 5:
        return s[flat::F_fm] == 1;
    case 6:
        return s[flat::F_fm] == 1 || s[flat::F_fz] == 1;
    case 7:
        return s[flat::F_fn] == 0;
    case 8:
        return s[flat::F_fc0] == 1;
    case 9:
        return s[flat::F_fv] == 1;
    case 10:
        return s[flat::F_fe] == 1;
    case 11:
        return s[flat::F_flm] == 1 || s[flat::F_fvl] == 1;
    case 12:
        return s[flat::F_fr] == 0;
    case 13:
        return s[flat::F_iu + 0] == 0;
    case 14:
        return s[flat::F_iu + 0] == 1;
    default:
        return s[flat::F_iu + 1] == 1;
    }
}


struct Model {
    const icase::ICase& c;
    State e; // expected state
    bool skip = false;
    std::string cls;
    explicit Model(const icase::ICase& cc) : c(cc), e(cc.st) {}

    uint16_t mem(uint16_t a) {
        if (a == 0xFFFF)
            skip = true; // the one MMIO cell of this core
        uint32_t w = 0x20000u + a;
        for (auto it = c.pokes.rbegin(); it != c.pokes.rend(); ++it)
            if ((it->addr & 0x3FFFF) == w)
                return it->val;
        uint32_t pc = (uint32_t)c.st[flat::F_pc];
        if (w == pc)
            return c.opcode;
        if (w == pc + 1)
            return c.expansion;
        return icase::base_word(w);
    }
    // [Rn] with post-modification, linear stepping only (the generator pins modulo / bit reversal / end-pointer off)
    uint16_t rn_access(unsigned n, unsigned step) {
        uint16_t a = (uint16_t)e[flat::F_r + n];
        int d = 0;
        switch (step) {
        case 1:
            d = 1;
            break;
        case 2:
            d = -1;
            break;
        case 3: {
            unsigned sv = (unsigned)(n < 4 ? e[flat::F_stepi] : e[flat::F_stepj]) & 0x7F;
            d = (sv & 0x40) ? (int)sv - 128 : (int)sv;
            break;
        }
        }
        e[flat::F_r + n] = (uint16_t)(a + d);
        return mem(a);
    }
};

/// common pinning for ALU-level checks: linear addressing, no loops, no repeat, no pending interrupt
inline void pin_plain(State& st) {
    for (int i = 0; i < 8; ++i) {
        st[flat::F_m + i] = 0;
        st[flat::F_br + i] = 0;
    }
    st[flat::F_epi] = st[flat::F_epj] = 0;
    st[flat::F_stp16] = 0;
    st[flat::F_rep] = 0;
    st[flat::F_bcn] = 0;
    st[flat::F_lp] = 0;
    st[flat::F_ie] = 0;
    for (int i = 0; i < 3; ++i)
        st[flat::F_ip + i] = 0;
    st[flat::F_ipv] = 0;
}

} // namespace imodel
