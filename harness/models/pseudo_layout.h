// pseudo_layout.h -- golden bit layout of the 19 status/configuration words.
// Transcribed once from include/teakra/impl/register.h at the pinned commit and cross-read with the flag
// strings the hardware test verifier prints (src/test_verifier/main.cpp: "####C###ZMNVCELL" for stt0,
// "QP#########R####" stt1, "LBBB####mm##V21I" stt2, "#QQ#PPooSYY###SS" mod0, "jicB####pppppppp" mod1,
// "7654321m7654321M" mod2, "RRRRRRoosssoosss" ar, "#RR#RRjjjjjiiiii" arp). It is a *regression* oracle: a moved
// bit that still satisfies the algebraic laws is caught only here (and by C01).
#pragma once
#include "flat_state.h"

namespace layout {

enum Kind {
    RW,       // ordinary read/write slot
    RO,       // reads the field, writes are ignored
    W1C_LOOP, // reads lp; writing 1 clears lp and bcn, writing 0 changes nothing
    BOTH,     // TeakLite limit flag: reads flm | fvl, a write sets both
    ACCE,     // 4-bit window on bits 32..35 of an accumulator; a write sign-extends from bit 35 into bits 36..39(..63)
};

struct Slot {
    int pos, len;
    int field;  // flat::Field (first of two for BOTH: flm, the second is fvl; accumulator field for ACCE)
    Kind kind;
};

struct Word {
    const char* name;
    std::vector<Slot> slots;
};

inline const std::vector<Word>& words() {
    using namespace flat;
    static const std::vector<Word> w = {
        {"st0", {{0, 1, F_sat, RW}, {1, 1, F_ie, RW}, {2, 1, F_im + 0, RW}, {3, 1, F_im + 1, RW}, {4, 1, F_fr, RW},
                 {5, 1, F_flm, BOTH}, {6, 1, F_fe, RW}, {7, 1, F_fc0, RW}, {8, 1, F_fv, RW}, {9, 1, F_fn, RW},
                 {10, 1, F_fm, RW}, {11, 1, F_fz, RW}, {12, 4, F_a + 0, ACCE}}},
        {"st1", {{0, 8, F_page, RW}, {10, 2, F_ps + 0, RW}, {12, 4, F_a + 1, ACCE}}},
        {"st2", {{0, 1, F_m + 0, RW}, {1, 1, F_m + 1, RW}, {2, 1, F_m + 2, RW}, {3, 1, F_m + 3, RW}, {4, 1, F_m + 4, RW},
                 {5, 1, F_m + 5, RW}, {6, 1, F_im + 2, RW}, {7, 1, F_s, RW}, {8, 1, F_ou + 0, RW}, {9, 1, F_ou + 1, RW},
                 {10, 1, F_iu + 0, RO}, {11, 1, F_iu + 1, RO}, {13, 1, F_ip + 2, RO}, {14, 1, F_ip + 0, RO}, {15, 1, F_ip + 1, RO}}},
        {"stt0", {{0, 1, F_flm, RW}, {1, 1, F_fvl, RW}, {2, 1, F_fe, RW}, {3, 1, F_fc0, RW}, {4, 1, F_fv, RW}, {5, 1, F_fn, RW},
                  {6, 1, F_fm, RW}, {7, 1, F_fz, RW}, {11, 1, F_fc1, RW}}},
        {"stt1", {{4, 1, F_fr, RW}, {10, 1, F_iu + 0, RO}, {11, 1, F_iu + 1, RO}, {14, 1, F_pe + 0, RW}, {15, 1, F_pe + 1, RW}}},
        {"stt2", {{0, 1, F_ip + 0, RO}, {1, 1, F_ip + 1, RO}, {2, 1, F_ip + 2, RO}, {3, 1, F_ipv, RO}, {6, 2, F_pcmhi, RW},
                  {12, 3, F_bcn, RO}, {15, 1, F_lp, W1C_LOOP}}},
        {"mod0", {{0, 1, F_sat, RW}, {1, 1, F_sata, RW}, {2, 3, F_mod0_unk_const, RO}, {5, 2, F_hwm, RW}, {7, 1, F_s, RW},
                  {8, 1, F_ou + 0, RW}, {9, 1, F_ou + 1, RW}, {10, 2, F_ps + 0, RW}, {13, 2, F_ps + 1, RW}}},
        {"mod1", {{0, 8, F_page, RW}, {12, 1, F_stp16, RW}, {13, 1, F_cmd, RW}, {14, 1, F_epi, RW}, {15, 1, F_epj, RW}}},
        {"mod2", {{0, 1, F_m + 0, RW}, {1, 1, F_m + 1, RW}, {2, 1, F_m + 2, RW}, {3, 1, F_m + 3, RW}, {4, 1, F_m + 4, RW},
                  {5, 1, F_m + 5, RW}, {6, 1, F_m + 6, RW}, {7, 1, F_m + 7, RW}, {8, 1, F_br + 0, RW}, {9, 1, F_br + 1, RW},
                  {10, 1, F_br + 2, RW}, {11, 1, F_br + 3, RW}, {12, 1, F_br + 4, RW}, {13, 1, F_br + 5, RW}, {14, 1, F_br + 6, RW},
                  {15, 1, F_br + 7, RW}}},
        {"mod3", {{0, 1, F_nimc, RW}, {1, 1, F_ic + 0, RW}, {2, 1, F_ic + 1, RW}, {3, 1, F_ic + 2, RW}, {4, 1, F_ou + 2, RW},
                  {5, 1, F_ou + 3, RW}, {6, 1, F_ou + 4, RW}, {7, 1, F_ie, RW}, {8, 1, F_im + 0, RW}, {9, 1, F_im + 1, RW},
                  {10, 1, F_im + 2, RW}, {11, 1, F_imv, RW}, {13, 1, F_ccnta, RW}, {14, 1, F_cpc, RW}, {15, 1, F_crep, RW}}},
        {"cfgi", {{0, 7, F_stepi, RW}, {7, 9, F_modi, RW}}},
        {"cfgj", {{0, 7, F_stepj, RW}, {7, 9, F_modj, RW}}},
        {"ar0", {{0, 3, F_arstep + 1, RW}, {3, 2, F_aroffset + 1, RW}, {5, 3, F_arstep + 0, RW}, {8, 2, F_aroffset + 0, RW},
                 {10, 3, F_arrn + 1, RW}, {13, 3, F_arrn + 0, RW}}},
        {"ar1", {{0, 3, F_arstep + 3, RW}, {3, 2, F_aroffset + 3, RW}, {5, 3, F_arstep + 2, RW}, {8, 2, F_aroffset + 2, RW},
                 {10, 3, F_arrn + 3, RW}, {13, 3, F_arrn + 2, RW}}},
        {"arp0", {{0, 3, F_arpstepi + 0, RW}, {3, 2, F_arpoffseti + 0, RW}, {5, 3, F_arpstepj + 0, RW}, {8, 2, F_arpoffsetj + 0, RW},
                  {10, 2, F_arprni + 0, RW}, {13, 2, F_arprnj + 0, RW}}},
        {"arp1", {{0, 3, F_arpstepi + 1, RW}, {3, 2, F_arpoffseti + 1, RW}, {5, 3, F_arpstepj + 1, RW}, {8, 2, F_arpoffsetj + 1, RW},
                  {10, 2, F_arprni + 1, RW}, {13, 2, F_arprnj + 1, RW}}},
        {"arp2", {{0, 3, F_arpstepi + 2, RW}, {3, 2, F_arpoffseti + 2, RW}, {5, 3, F_arpstepj + 2, RW}, {8, 2, F_arpoffsetj + 2, RW},
                  {10, 2, F_arprni + 2, RW}, {13, 2, F_arprnj + 2, RW}}},
        {"arp3", {{0, 3, F_arpstepi + 3, RW}, {3, 2, F_arpoffseti + 3, RW}, {5, 3, F_arpstepj + 3, RW}, {8, 2, F_arpoffsetj + 3, RW},
                  {10, 2, F_arprni + 3, RW}, {13, 2, F_arprnj + 3, RW}}},
        {"icr", {{0, 1, F_nimc, RW}, {1, 1, F_ic + 0, RW}, {2, 1, F_ic + 1, RW}, {3, 1, F_ic + 2, RW}, {4, 1, F_lp, W1C_LOOP},
                 {5, 3, F_bcn, RO}}},
    };
    return w;
}

/// what reading word w gives in state s
inline uint16_t read(int w, const flat::State& s) {
    uint16_t v = 0;
    for (const Slot& sl : words()[w].slots) {
        uint64_t f;
        switch (sl.kind) {
        case BOTH:
            f = s[flat::F_flm] | s[flat::F_fvl];
            break;
        case ACCE:
            f = (s[sl.field] >> 32) & 0xF;
            break;
        default:
            f = s[sl.field];
        }
        v |= (uint16_t)((f & ((1u << sl.len) - 1)) << sl.pos);
    }
    return v;
}

/// the state after writing value v to word w in state s
inline flat::State write(int w, const flat::State& s, uint16_t v) {
    flat::State o = s;
    for (const Slot& sl : words()[w].slots) {
        uint64_t f = (v >> sl.pos) & ((1u << sl.len) - 1);
        switch (sl.kind) {
        case RW:
            o[sl.field] = f;
            break;
        case RO:
            break;
        case W1C_LOOP:
            if (f) {
                o[flat::F_lp] = 0;
                o[flat::F_bcn] = 0;
            }
            break;
        case BOTH:
            o[flat::F_flm] = f;
            o[flat::F_fvl] = f;
            break;
        case ACCE: {
            uint64_t low = o[sl.field] & 0xFFFFFFFFull;
            uint64_t e = f & 0xF;
            if (e & 8)
                e |= 0xFFFFFFF0ull; // sign extension of the 4-bit value through bit 63
            o[sl.field] = low | (e << 32);
            break;
        }
        }
    }
    return o;
}

} // namespace layout
