// ref_alu.h -- reference ALU written from the statement of property C03 (exact integer arithmetic on signed
// 40-bit values), deliberately not derived from interpreter.h. Operates on flat::State.
#pragma once
#include <string>

#include "flat_state.h"
#include "pseudo_layout.h"

namespace ralu {

using flat::State;
typedef __int128 i128;

inline int64_t s40(uint64_t stored) { // accumulators are stored sign-extended to 64 bits
    return (int64_t)stored;
}
inline int64_t wrap40(i128 r) {
    uint64_t u = (uint64_t)r & 0xFFFFFFFFFFull;
    return (u & 0x8000000000ull) ? (int64_t)(u | 0xFFFFFF0000000000ull) : (int64_t)u;
}
inline bool fits32(int64_t w) {
    return w >= -(int64_t)0x80000000ll && w <= 0x7FFFFFFFll;
}
inline bool fits40(i128 r) {
    return r >= -((i128)1 << 39) && r < ((i128)1 << 39);
}

/// zero / minus / extension / normalized flags of a 40-bit result
inline void result_flags(State& s, int64_t w) {
    s[flat::F_fz] = w == 0;
    s[flat::F_fm] = w < 0;
    s[flat::F_fe] = !fits32(w);
    bool b31 = (w >> 31) & 1, b30 = (w >> 30) & 1;
    s[flat::F_fn] = (w == 0) || (fits32(w) && b31 != b30);
}

/// exact a +/- b on 40-bit values: returns the wrapped result, sets carry (borrow for subtraction), overflow and
/// the latched overflow
inline int64_t add_sub(State& s, int64_t a, int64_t b, bool sub) {
    i128 r = sub ? (i128)a - b : (i128)a + b;
    uint64_t ua = (uint64_t)a & 0xFFFFFFFFFFull, ub = (uint64_t)b & 0xFFFFFFFFFFull;
    s[flat::F_fc0] = sub ? (ua < ub) : (((ua + ub) >> 40) & 1);
    bool v = !fits40(r);
    s[flat::F_fv] = v;
    if (v)
        s[flat::F_fvl] = 1;
    return wrap40(r);
}

/// write-side saturation: with sata == 0 a value that does not fit 32 bits becomes the nearest bound, limit flag set
inline int64_t saturate_on_write(State& s, int64_t w) {
    if (s[flat::F_sata] == 0 && !fits32(w)) {
        s[flat::F_flm] = 1;
        return w < 0 ? -(int64_t)0x80000000ll : 0x7FFFFFFFll;
    }
    return w;
}

enum AccId { A0, A1, B0, B1 };
inline int acc_field(AccId a) {
    switch (a) {
    case A0:
        return flat::F_a + 0;
    case A1:
        return flat::F_a + 1;
    case B0:
        return flat::F_b + 0;
    default:
        return flat::F_b + 1;
    }
}
inline AccId ax(uint64_t v) {
    return v ? A1 : A0;
}
inline AccId bx(uint64_t v) {
    return v ? B1 : B0;
}
inline AccId ab(uint64_t v) { // Ab operand encoding: b0 b1 a0 a1
    static const AccId t[4] = {B0, B1, A0, A1};
    return t[v & 3];
}

/// arithmetic result -> flags from the unsaturated value, then (possibly saturated) write
inline void write_arith(State& s, AccId d, int64_t w) {
    result_flags(s, w);
    s[acc_field(d)] = (uint64_t)saturate_on_write(s, w);
}
/// bitwise result: flags from the value, no saturation on these forms
inline void write_logic(State& s, AccId d, int64_t w) {
    result_flags(s, w);
    s[acc_field(d)] = (uint64_t)w;
}

/// the 33-bit product as a signed value, read through the product shifter
inline int64_t product_value(const State& s, int unit) {
    uint64_t raw = s[flat::F_p + unit] | (s[flat::F_pe + unit] << 32);
    int64_t v = (raw & 0x100000000ull) ? (int64_t)(raw | 0xFFFFFFFE00000000ull) : (int64_t)raw; // sign-extend from bit 32
    switch (s[flat::F_ps + unit]) {
    case 0:
        return v;
    case 1:
        return v >> 1; // arithmetic: floor(v / 2)
    case 2:
        return v * 2;
    default:
        return v * 4;
    }
}

// ---- 16-bit register operands ("Register" operand encoding, transcribed from the ISA tables in operand.h) ---------
static const char* const kRegisterOperand[32] = {"r0", "r1", "r2", "r3", "r4", "r5", "r7", "y0", "st0", "st1", "st2", "p", "pc", "sp", "cfgi", "cfgj",
                                                 "b0h", "b1h", "b0l", "b1l", "ext0", "ext1", "ext2", "ext3", "a0", "a1", "a0l", "a1l", "a0h", "a1h", "lc", "sv"};

inline int word_index(const char* n) {
    const auto& w = layout::words();
    for (size_t i = 0; i < w.size(); ++i)
        if (std::string(w[i].name) == n)
            return (int)i;
    return -1;
}

/// value a plain 16-bit register name reads as (no read-side saturation). ok=false: not a 16-bit register here
inline uint16_t read16(const State& s, const std::string& n, bool& ok) {
    ok = true;
    if (n.size() == 2 && n[0] == 'r' && n[1] >= '0' && n[1] <= '7')
        return (uint16_t)s[flat::F_r + (n[1] - '0')];
    if (n == "y0")
        return (uint16_t)s[flat::F_y + 0];
    if (n == "sp")
        return (uint16_t)s[flat::F_sp];
    if (n == "sv")
        return (uint16_t)s[flat::F_sv];
    if (n == "lc")
        return (uint16_t)s[flat::F_bk_lc + (s[flat::F_lp] ? (int)s[flat::F_bcn] - 1 : 0)];
    if (n.size() == 4 && n.substr(0, 3) == "ext")
        return (uint16_t)s[flat::F_ext + (n[3] - '0')];
    if (n.size() == 3 && (n[0] == 'a' || n[0] == 'b') && (n[1] == '0' || n[1] == '1') && (n[2] == 'l' || n[2] == 'h')) {
        uint64_t acc = s[(n[0] == 'a' ? flat::F_a : flat::F_b) + (n[1] - '0')];
        return (uint16_t)(n[2] == 'l' ? acc : acc >> 16);
    }
    int w = word_index(n.c_str());
    if (w >= 0)
        return layout::read(w, s);
    ok = false;
    return 0;
}

} // namespace ralu
