// ref_mul_shift.h -- reference multiplier and barrel shifter written from the statement of property C04
// (exact integer arithmetic), not derived from interpreter.h.
#pragma once
#include "ref_alu.h"

namespace rmul {

using flat::State;
using ralu::i128;

/// launch multiplication `unit`: exact product of x and y under the sign selection and the half-word mode, stored as
/// 33-bit two's complement in (pe, p)
inline void multiply(State& s, int unit, bool x_signed, bool y_signed) {
    uint16_t x = (uint16_t)s[flat::F_x + unit], y = (uint16_t)s[flat::F_y + unit];
    unsigned hwm = (unsigned)s[flat::F_hwm];
    bool half = false;
    if (hwm == 1 || (hwm == 3 && unit == 0)) {
        y = y >> 8; // upper byte
        half = true;
    } else if (hwm == 2 || (hwm == 3 && unit == 1)) {
        y = y & 0xFF; // lower byte
        half = true;
    }
    int64_t xv = x_signed ? (int64_t)(int16_t)x : (int64_t)x;
    int64_t yv = (y_signed && !half) ? (int64_t)(int16_t)y : (int64_t)y; // a selected byte is a non-negative 8-bit factor
    int64_t prod = xv * yv;
    s[flat::F_p + unit] = (uint64_t)prod & 0xFFFFFFFFull;
    s[flat::F_pe + unit] = (x_signed || y_signed) ? (uint64_t)((prod >> 32) & 1) : 0;
}

/// load a product register from a 32-bit bus value (sign bit becomes the extension)
inline void product_from32(State& s, int unit, uint32_t v) {
    s[flat::F_p + unit] = v;
    s[flat::F_pe + unit] = v >> 31;
}

struct ShiftResult {
    int64_t value;
    bool carry_defined;
};

/// 40-bit barrel shifter: `v` signed 40-bit, `amount` signed (positive = left). Sets fc0, fv/fvl (arithmetic mode only),
/// result flags, applies the 32-bit saturation (arithmetic mode, sata == 0) and writes `dest`.
/// carry_checked=false is returned for |amount| == 40 where "last bit shifted out" and the hardware-validated
/// implementation disagree (see DESIGN.md C04); the caller then does not compare fc0.
inline bool shift40(State& s, int64_t v, int16_t amount, ralu::AccId dest) {
    const bool logical = s[flat::F_s] != 0;
    const uint64_t pattern = (uint64_t)v & 0xFFFFFFFFFFull;
    const bool original_negative = (pattern >> 39) & 1;
    int64_t result;
    bool carry = false, overflow = false, carry_checked = true;
    if (amount >= 0) {
        int n = amount;
        if (n == 0) {
            result = v;
        } else if (n >= 40) {
            result = 0;
            carry = false;
            if (n == 40)
                carry_checked = false;
            overflow = v != 0;
        } else {
            i128 exact = (i128)v * ((i128)1 << n);
            overflow = !ralu::fits40(exact);
            carry = (pattern >> (40 - n)) & 1;
            result = ralu::wrap40(exact);
        }
        if (!logical) {
            s[flat::F_fv] = overflow;
            if (overflow)
                s[flat::F_fvl] = 1;
        }
    } else {
        int k = -(int)amount;
        if (!logical) {
            if (k >= 40) {
                result = original_negative ? -1 : 0;
                carry = original_negative;
            } else {
                result = v >> k; // floor
                carry = (pattern >> (k - 1)) & 1;
            }
            s[flat::F_fv] = 0;
        } else {
            if (k >= 40) {
                result = 0;
                carry = false;
                if (k == 40)
                    carry_checked = false;
            } else {
                carry = (pattern >> (k - 1)) & 1;
                result = ralu::wrap40((i128)(pattern >> k));
            }
        }
    }
    s[flat::F_fc0] = carry;
    ralu::result_flags(s, result);
    if (!logical && s[flat::F_sata] == 0) {
        if (s[flat::F_fv] || !ralu::fits32(result)) {
            s[flat::F_flm] = 1;
            result = original_negative ? -(int64_t)0x80000000ll : 0x7FFFFFFFll;
        }
    }
    s[ralu::acc_field(dest)] = (uint64_t)result;
    return carry_checked;
}

/// exponent: number of redundant sign bits of a 40-bit value, minus eight
inline uint16_t exponent(int64_t v) {
    uint64_t pattern = (uint64_t)v & 0xFFFFFFFFFFull;
    unsigned sign = (pattern >> 39) & 1;
    int count = 0;
    for (int b = 38; b >= 0; --b) {
        if (((pattern >> b) & 1) != sign)
            break;
        ++count;
    }
    return (uint16_t)(int16_t)(count - 8);
}

} // namespace rmul
