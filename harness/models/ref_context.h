// ref_context.h -- what a context store / restore does to the register state, from the property statements of C07/C08
// and register.md ("batch one-side" flags bank, "batch two-side" bank, ar/arp banks, repc / a1,b1 per configuration).
#pragma once
#include "flat_state.h"
#include "ref_alu.h"

namespace rctx {

using flat::State;

struct Pair {
    int vis, sh, n;
};
inline const std::vector<Pair>& two_way() {
    using namespace flat;
    static const std::vector<Pair> p = {
        {F_pcmhi, F_ss_pcmhi, 1},       {F_sat, F_ss_sat, 1},           {F_sata, F_ss_sata, 1},         {F_hwm, F_ss_hwm, 1},
        {F_s, F_ss_s, 1},               {F_ps, F_ss_ps, 2},             {F_page, F_ss_page, 1},         {F_stp16, F_ss_stp16, 1},
        {F_cmd, F_ss_cmd, 1},           {F_m, F_ss_m, 8},               {F_br, F_ss_br, 8},             {F_im, F_ss_im, 3},
        {F_imv, F_ss_imv, 1},           {F_epi, F_ss_epi, 1},           {F_epj, F_ss_epj, 1},           {F_arrn, F_ss_arrn, 4},
        {F_arstep, F_ss_arstep, 4},     {F_aroffset, F_ss_aroffset, 4}, {F_arprni, F_ss_arprni, 4},     {F_arprnj, F_ss_arprnj, 4},
        {F_arpstepi, F_ss_arpstepi, 4}, {F_arpstepj, F_ss_arpstepj, 4}, {F_arpoffseti, F_ss_arpoffseti, 4}, {F_arpoffsetj, F_ss_arpoffsetj, 4},
    };
    return p;
}
inline const int* flag_vis() {
    using namespace flat;
    static const int v[10] = {F_flm, F_fvl, F_fe, F_fc0, F_fc1, F_fv, F_fn, F_fm, F_fz, F_fr};
    return v;
}
inline const int* flag_sh() {
    using namespace flat;
    static const int v[10] = {F_sh_flm, F_sh_fvl, F_sh_fe, F_sh_fc0, F_sh_fc1, F_sh_fv, F_sh_fn, F_sh_fm, F_sh_fz, F_sh_fr};
    return v;
}
inline void swap_two_way(State& s) {
    for (const Pair& p : two_way())
        for (int i = 0; i < p.n; ++i)
            std::swap(s[p.vis + i], s[p.sh + i]);
}

inline void store(State& s) {
    for (int i = 0; i < 10; ++i)
        s[flag_sh()[i]] = s[flag_vis()[i]]; // one-way: flags are saved
    swap_two_way(s);
    if (!s[flat::F_crep])
        s[flat::F_repcs] = s[flat::F_repc];
    if (!s[flat::F_ccnta]) {
        s[flat::F_a1s] = s[flat::F_a + 1];
        s[flat::F_b1s] = s[flat::F_b + 1];
    } else {
        // a1 <-> b1 exchange; the move into a1 sets the result flags (the saved flags come back on restore)
        std::swap(s[flat::F_a + 1], s[flat::F_b + 1]);
        ralu::result_flags(s, (int64_t)s[flat::F_a + 1]);
    }
}

inline void restore(State& s) {
    for (int i = 0; i < 10; ++i)
        s[flag_vis()[i]] = s[flag_sh()[i]];
    swap_two_way(s);
    if (!s[flat::F_crep])
        s[flat::F_repc] = s[flat::F_repcs];
    if (!s[flat::F_ccnta]) {
        s[flat::F_a + 1] = s[flat::F_a1s];
        s[flat::F_b + 1] = s[flat::F_b1s];
    } else {
        std::swap(s[flat::F_a + 1], s[flat::F_b + 1]);
    }
}

} // namespace rctx
