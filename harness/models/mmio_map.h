// mmio_map.h -- register map of the XpertTeak peripherals as the documentation describes it (timer.md, dma.md, icu.md,
// ahbm.md, miu.md, apbp.md, btdmp.md), used as the oracle of C12: which fields exist, where, what a read returns after
// a sequence of writes, and which documented couplings exist. Nothing here is derived from mmio.cpp except the list of
// doc-vs-code notes at the end of DESIGN.md C12.
#pragma once
#include <array>
#include <cstdint>
#include <map>
#include <vector>

namespace mmiomap {

struct Model {
    // timers
    struct Tm {
        uint16_t cfg = 0; // last written value, RES always reads 0
        uint16_t start_lo = 0, start_hi = 0, mirror_lo = 0, mirror_hi = 0;
        uint32_t counter = 0;
    } tm[2];
    // apbp
    uint16_t reply[3] = {0, 0, 0}, cmd[3] = {0, 0, 0};
    bool reply_ready[3] = {false, false, false}, cmd_ready[3] = {false, false, false};
    uint16_t sem_d2c = 0, sem_c2d = 0, mask_c2d = 0;
    uint16_t d4 = 0;
    // ahbm
    uint16_t ahbm_cfg[3] = {0, 0, 0}, ahbm_dir[3] = {0, 0, 0}, ahbm_dma[3] = {0, 0, 0};
    // miu
    uint16_t xpage = 0, ypage = 0, zpage = 0, page0cfg = 0x1E20, page1cfg = 0x1E20, misccfg = 0, mmio_base = 0x8000;
    // dma
    uint16_t dma_enable = 0, dma_channel = 0;
    std::array<std::array<uint16_t, 16>, 8> dma{}; // per channel: 0x1C0 .. 0x1DE
    // icu
    uint16_t pending = 0, en[3] = {0, 0, 0}, env = 0;
    uint16_t vec_hi[16] = {0}, vec_lo[16] = {0};
    // btdmp
    uint16_t bt_clock[2] = {0, 0}, bt_enable[2] = {0, 0};
    unsigned bt_fill[2] = {0, 0};
    // documented registers without any modelled function (PWM counters of the timers): plain storage
    std::map<uint16_t, uint16_t> plain{{0x2C, 0}, {0x2E, 0}, {0x3C, 0}, {0x3E, 0}};

    bool cmd_irq_disabled(int i) const {
        return (d4 >> (i == 0 ? 8 : (i == 1 ? 12 : 13))) & 1;
    }
    bool sem_flag() const {
        return (sem_c2d & ~mask_c2d) != 0;
    }
};

/// mask of the bits of a register that are documented fields (compared); the rest is not checked
inline uint16_t documented_mask(uint16_t off) {
    if (off == 0x20 || off == 0x30)
        return 0xFFDF; // everything but bit 5
    if (off == 0x22 || off == 0x32)
        return 0x0001;
    if (off == 0x0D4)
        return 0x3104; // CI2 CI1 CI0 END
    if (off == 0x0D6)
        return 0x33E0; // C2 C1 S C0 R2 R1 R0
    if (off == 0x0D8)
        return 0xFC00; // C2..R0; S' (bit 9) is documented as the CPU-side flag but wired to the DSP-side one: not compared
    if (off == 0x0E0)
        return 0x0000; // busy flag: timing dependent on hardware, always 0 here
    for (uint16_t i = 0; i < 3; ++i) {
        if (off == 0x0E2 + i * 6)
            return 0x0036;
        if (off == 0x0E4 + i * 6)
            return 0x0100;
    }
    if (off == 0x114 || off == 0x116)
        return 0x3F3F;
    if (off == 0x11A)
        return 0x0040; // PAGEMODE (the other documented bits are not modelled by any peripheral)
    if (off == 0x1DA)
        return 0x04FF;
    if (off >= 0x212 && off < 0x252 && ((off - 0x212) % 4) == 0)
        return 0x8003;
    if (off == 0x2C2 || off == 0x342)
        return 0x0018;
    return 0xFFFF;
}

/// registers a sweep may read without side effects
inline const std::vector<uint16_t>& sweep() {
    static const std::vector<uint16_t> v = [] {
        std::vector<uint16_t> r;
        for (uint16_t t = 0; t < 2; ++t)
            for (uint16_t o : {0x20, 0x22, 0x24, 0x26, 0x28, 0x2A, 0x2C, 0x2E})
                r.push_back(o + t * 0x10);
        for (uint16_t o : {0x01A, 0x0C0, 0x0C4, 0x0C8, 0x0CC, 0x0CE, 0x0D0, 0x0D2, 0x0D4, 0x0D6, 0x0D8})
            r.push_back(o);
        for (uint16_t i = 0; i < 3; ++i)
            for (uint16_t o : {0x0E2, 0x0E4, 0x0E6})
                r.push_back(o + i * 6);
        for (uint16_t o : {0x10E, 0x110, 0x112, 0x114, 0x116, 0x11A, 0x11E, 0x184, 0x18C, 0x1BE})
            r.push_back(o);
        for (uint16_t o = 0x1C0; o <= 0x1DE; o += 2)
            r.push_back(o);
        for (uint16_t o = 0x200; o <= 0x20C; o += 2)
            r.push_back(o);
        for (uint16_t i = 0; i < 16; ++i) {
            r.push_back(0x212 + i * 4);
            r.push_back(0x214 + i * 4);
        }
        for (uint16_t i = 0; i < 2; ++i)
            for (uint16_t o : {0x2A2, 0x2BE, 0x2C2, 0x2CA})
                r.push_back(o + i * 0x80);
        return r;
    }();
    return v;
}

/// value a read of `off` returns (documented bits only are meaningful); `known` = false: outside the documented map
inline uint16_t read(const Model& m, uint16_t off, bool& known) {
    known = true;
    for (int t = 0; t < 2; ++t) {
        uint16_t b = 0x20 + t * 0x10;
        if (off == b)
            return m.tm[t].cfg & ~0x0400;
        if (off == b + 2)
            return 0;
        if (off == b + 4)
            return m.tm[t].start_lo;
        if (off == b + 6)
            return m.tm[t].start_hi;
        if (off == b + 8)
            return m.tm[t].mirror_lo;
        if (off == b + 10)
            return m.tm[t].mirror_hi;
    }
    if (off == 0x01A)
        return 0xC902;
    {
        auto it = m.plain.find(off);
        if (it != m.plain.end())
            return it->second;
    }
    for (int i = 0; i < 3; ++i) {
        if (off == 0x0C0 + 4 * i)
            return m.reply[i];
        if (off == 0x0E2 + 6 * i)
            return m.ahbm_cfg[i];
        if (off == 0x0E4 + 6 * i)
            return m.ahbm_dir[i];
        if (off == 0x0E6 + 6 * i)
            return m.ahbm_dma[i];
    }
    switch (off) {
    case 0x0CC:
        return m.sem_d2c;
    case 0x0CE:
        return m.mask_c2d;
    case 0x0D0:
        return 0;
    case 0x0D2:
        return m.sem_c2d;
    case 0x0D4:
        return m.d4;
    case 0x0D6:
        return (uint16_t)((m.reply_ready[0] << 5) | (m.reply_ready[1] << 6) | (m.reply_ready[2] << 7) | (m.cmd_ready[0] << 8) | (m.sem_flag() << 9) |
                          (m.cmd_ready[1] << 12) | (m.cmd_ready[2] << 13));
    case 0x0D8:
        return (uint16_t)((m.sem_flag() << 9) | (m.reply_ready[0] << 10) | (m.reply_ready[1] << 11) | (m.reply_ready[2] << 12) | (m.cmd_ready[0] << 13) |
                          (m.cmd_ready[1] << 14) | (m.cmd_ready[2] << 15));
    case 0x0E0:
        return 0;
    case 0x10E:
        return m.xpage;
    case 0x110:
        return m.ypage;
    case 0x112:
        return m.zpage;
    case 0x114:
        return m.page0cfg;
    case 0x116:
        return m.page1cfg;
    case 0x11A:
        return m.misccfg;
    case 0x11E:
        return m.mmio_base;
    case 0x184:
        return m.dma_enable;
    case 0x18C:
        return 0xFFFF;
    case 0x1BE:
        return m.dma_channel;
    case 0x200:
        return m.pending;
    case 0x202:
    case 0x204:
        return 0;
    case 0x206:
        return m.en[0];
    case 0x208:
        return m.en[1];
    case 0x20A:
        return m.en[2];
    case 0x20C:
        return m.env;
    }
    if (off >= 0x1C0 && off <= 0x1DE && !(off & 1))
        return m.dma[m.dma_channel & 7][(off - 0x1C0) / 2];
    if (off >= 0x212 && off < 0x252) {
        unsigned i = (off - 0x212) / 4;
        if ((off - 0x212) % 4 == 0)
            return m.vec_hi[i];
        if ((off - 0x212) % 4 == 2)
            return m.vec_lo[i];
    }
    for (int i = 0; i < 2; ++i) {
        uint16_t b = 0x80 * i;
        if (off == 0x2A2 + b)
            return m.bt_clock[i];
        if (off == 0x2BE + b)
            return m.bt_enable[i];
        if (off == 0x2C2 + b)
            return (uint16_t)(((m.bt_fill[i] == 16) << 3) | ((m.bt_fill[i] == 0) << 4));
        if (off == 0x2CA + b)
            return 0;
    }
    known = false;
    return 0;
}

/// effect of a write; returns false when the offset is outside the documented map (no documented register may change)
inline bool write(Model& m, uint16_t off, uint16_t v) {
    for (int t = 0; t < 2; ++t) {
        uint16_t b = 0x20 + t * 0x10;
        Model::Tm& T = m.tm[t];
        if (off == b) {
            T.cfg = v;
            unsigned cm = (v >> 2) & 7;
            if ((v & 0x0400) && cm != 2) { // RES: reload the counter (free-running ignores it)
                T.counter = ((uint32_t)T.start_hi << 16) | T.start_lo;
                if (v & 0x0200) { // MU: mirror follows
                    T.mirror_lo = (uint16_t)T.counter;
                    T.mirror_hi = (uint16_t)(T.counter >> 16);
                }
            }
            return true;
        }
        if (off == b + 2) {
            unsigned cm = (T.cfg >> 2) & 7;
            bool paused = T.cfg & 0x0100;
            if (v && cm == 3 && !paused && T.counter != 0) { // event count
                --T.counter;
                if (T.cfg & 0x0200) {
                    T.mirror_lo = (uint16_t)T.counter;
                    T.mirror_hi = (uint16_t)(T.counter >> 16);
                }
                if (T.counter == 0)
                    m.pending |= (uint16_t)(1u << (t == 0 ? 0xA : 0x9));
            }
            return true;
        }
        if (off == b + 4) {
            T.start_lo = v;
            return true;
        }
        if (off == b + 6) {
            T.start_hi = v;
            return true;
        }
        if (off == b + 8) {
            T.mirror_lo = v;
            return true;
        }
        if (off == b + 10) {
            T.mirror_hi = v;
            return true;
        }
    }
    {
        auto it = m.plain.find(off);
        if (it != m.plain.end()) {
            it->second = v;
            return true;
        }
    }
    for (int i = 0; i < 3; ++i) {
        if (off == 0x0C0 + 4 * i) {
            m.reply[i] = v;
            m.reply_ready[i] = true;
            return true;
        }
        if (off == 0x0C2 + 4 * i)
            return true; // CMDi is read-only
        if (off == 0x0E2 + 6 * i) {
            m.ahbm_cfg[i] = v;
            return true;
        }
        if (off == 0x0E4 + 6 * i) {
            m.ahbm_dir[i] = v;
            return true;
        }
        if (off == 0x0E6 + 6 * i) {
            m.ahbm_dma[i] = v;
            return true;
        }
    }
    switch (off) {
    case 0x01A:
    case 0x0D2:
    case 0x0D6:
    case 0x0D8:
    case 0x0E0:
    case 0x18C:
    case 0x200:
        return true; // status / constant registers
    case 0x0CC:
        m.sem_d2c |= v;
        return true;
    case 0x0CE: {
        bool before = m.sem_flag();
        m.mask_c2d = v;
        if (!before && m.sem_flag())
            m.pending |= 0x4000; // the signal flag rises: APBP interrupt
        return true;
    }
    case 0x0D0:
        m.sem_c2d &= ~v;
        return true;
    case 0x0D4:
        m.d4 = v;
        return true;
    case 0x10E:
        m.xpage = v;
        return true;
    case 0x110:
        m.ypage = v;
        return true;
    case 0x112:
        m.zpage = v;
        return true;
    case 0x114:
        m.page0cfg = v;
        return true;
    case 0x116:
        m.page1cfg = v;
        return true;
    case 0x11A:
        m.misccfg = v;
        return true;
    case 0x11E:
        m.mmio_base = v;
        return true;
    case 0x184:
        m.dma_enable = v;
        return true;
    case 0x1BE:
        m.dma_channel = v & 7; // CHANNEL is a 3-bit field (dma.md)
        return true;
    case 0x202:
        m.pending &= ~v;
        return true;
    case 0x204:
        m.pending |= v;
        return true;
    case 0x206:
        m.en[0] = v;
        return true;
    case 0x208:
        m.en[1] = v;
        return true;
    case 0x20A:
        m.en[2] = v;
        return true;
    case 0x20C:
        m.env = v;
        return true;
    }
    if (off >= 0x1C0 && off <= 0x1DE && !(off & 1)) {
        m.dma[m.dma_channel & 7][(off - 0x1C0) / 2] = v;
        if (off == 0x1DE && v == 0x40C0)
            m.pending |= 0x8000; // transfer runs to completion and raises the DMA interrupt
        return true;
    }
    if (off >= 0x212 && off < 0x252) {
        unsigned i = (off - 0x212) / 4;
        if ((off - 0x212) % 4 == 0) {
            m.vec_hi[i] = v;
            return true;
        }
        if ((off - 0x212) % 4 == 2) {
            m.vec_lo[i] = v;
            return true;
        }
    }
    for (int i = 0; i < 2; ++i) {
        uint16_t b = 0x80 * i;
        if (off == 0x2A2 + b) {
            m.bt_clock[i] = v;
            return true;
        }
        if (off == 0x2BE + b) {
            m.bt_enable[i] = v;
            return true;
        }
        if (off == 0x2C2 + b)
            return true;
        if (off == 0x2C6 + b) {
            if (m.bt_fill[i] < 16)
                ++m.bt_fill[i];
            return true;
        }
        if (off == 0x2CA + b) {
            m.bt_fill[i] = 0;
            return true;
        }
    }
    return false;
}

} // namespace mmiomap
