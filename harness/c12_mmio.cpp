// C12 -- MMIO registers hold what was written and do not alias one another.
// Histories of writes (and the few reads with side effects) over the 0x800 MMIO offsets through the host accessor at any
// 0x800 mirror and through the DSP data path at the (relocatable) window base, on one real Teakra instance without
// Run() (timers and FIFOs stay put). After every operation *every* side-effect-free documented register is read back
// and compared with the register-map model transcribed from the *.md documentation: "holds what was written" and
// "nothing else changed" are both checked at every step; couplings are exactly the documented ones.
#include <set>

#include "mmio_map.h"
#include <array>
#include "sysinst.h"
#include "vf.h"

namespace {

using sysinst::Sys;

enum Kind : int { Write, ReadCmd, HostSend, HostSetSem, DmaStart, HostQuery, NKIND };
const char* kKindName[] = {"write", "readcmd", "hostsend", "hostsetsem", "dmastart", "hostquery"};
struct Op {
    int kind = Write;
    uint16_t off = 0, v = 0;
    uint16_t path = 0; // 0: host accessor, 1: DSP data path at the window base, >=2: host accessor at mirror (path % 32)
    uint16_t sweep_path = 0;
};
using Case = std::vector<Op>;

Sys& sys() {
    static Sys* s = new Sys;
    return *s;
}

const std::vector<uint16_t>& documented() {
    static const std::vector<uint16_t> v = [] {
        std::vector<uint16_t> r = mmiomap::sweep();
        for (uint16_t o : {0x0C2, 0x0C6, 0x0CA, 0x2C6, 0x346})
            r.push_back(o);
        return r;
    }();
    return v;
}

std::string encode(const Case& c) {
    std::string s;
    for (auto& op : c)
        s += std::string(kKindName[op.kind]) + " " + vf::hex(op.off) + " " + vf::hex(op.v) + " " + vf::hex(op.path) + " " + vf::hex(op.sweep_path) + "\n";
    return s;
}
Case decode(const std::string& text) {
    Case c;
    for (auto& l : vf::lines(text)) {
        auto t = vf::split_ws(l);
        if (t.size() < 5)
            continue;
        Op op;
        for (int k = 0; k < NKIND; ++k)
            if (t[0] == kKindName[k])
                op.kind = k;
        op.off = (uint16_t)vf::unhex(t[1]);
        op.v = (uint16_t)vf::unhex(t[2]);
        op.path = (uint16_t)vf::unhex(t[3]);
        op.sweep_path = (uint16_t)vf::unhex(t[4]);
        c.push_back(op);
    }
    return c;
}

rc::Gen<Op> genOp() {
    using namespace rc;
    auto offGen = gen::weightedOneOf<uint16_t>({
        {14, gen::elementOf(documented())},
        {3, gen::map(gen::pair(gen::elementOf(documented()), gen::element<int>(-2, -1, 1, 2)),
                     [](std::pair<uint16_t, int> p) { return (uint16_t)((p.first + p.second) & 0x7FF); })}, // undocumented neighbours
        {3, vf::range<uint16_t>(0, 0x800)},
    });
    auto valGen = gen::weightedOneOf<uint16_t>({{3, gen::element<uint16_t>(0, 0xFFFF, 1, 0x8000, 0x40C0, 0x0400, 0x0600, 0x00FF, 7, 8, 9)},
                                                {2, gen::map(vf::range<int>(0, 16), [](int b) { return (uint16_t)(1u << b); })},
                                                {4, vf::u16b()}});
    return gen::map(gen::tuple(gen::weightedElement<int>({{30, Write}, {2, ReadCmd}, {2, HostSend}, {4, HostSetSem}, {1, DmaStart}, {2, HostQuery}}), offGen, valGen,
                               gen::weightedOneOf<uint16_t>({{3, gen::just<uint16_t>(0)}, {3, gen::just<uint16_t>(1)}, {2, vf::range<uint16_t>(2, 64)}}),
                               vf::range<uint16_t>(0, 64)),
                    [](std::tuple<int, uint16_t, uint16_t, uint16_t, uint16_t> t) {
                        Op op;
                        op.kind = std::get<0>(t);
                        op.off = std::get<1>(t);
                        op.v = std::get<2>(t);
                        op.path = std::get<3>(t);
                        op.sweep_path = std::get<4>(t);
                        return op;
                    });
}

struct Access {
    Sys& s;
    mmiomap::Model& m;
    // the DSP data path reaches the window only if the address fits 16 bits and bank 0 is selected
    bool dsp_path_ok(uint16_t off) const {
        return m.zpage == 0 && (uint32_t)m.mmio_base + off <= 0xFFFF;
    }
    void wr(uint16_t off, uint16_t v, uint16_t path) {
        if (path == 1 && dsp_path_ok(off))
            s.t->DataWrite((uint16_t)(m.mmio_base + off), v);
        else
            s.t->MMIOWrite((uint16_t)(off + 0x800 * (path >= 2 ? path % 32 : 0)), v);
    }
    uint16_t rd(uint16_t off, uint16_t path) {
        if (path == 1 && dsp_path_ok(off))
            return s.t->DataRead((uint16_t)(m.mmio_base + off));
        return s.t->MMIORead((uint16_t)(off + 0x800 * (path >= 2 ? path % 32 : 0)));
    }
};

// keep writes inside what the implementation documents as supported
uint16_t legal_value(uint16_t off, uint16_t v) {
    if ((off == 0x20 || off == 0x30) && (v & 0x0400))
        v &= ~0x0010; // restart with a count mode >= 4 (watchdog modes) is a deliberate ASSERT
    if (off == 0x1DE && v == 0x40C0)
        v = 0x40C1; // starts go through the dmastart operation, with a bounded configuration
    return v;
}

vf::Result check(const Case& cs) {
    Sys& s = sys();
    s.t->Reset();
    s.log.clear();
    // Reset() covers the modelled peripheral state; documented registers that are plain storage inside the MMIO region
    // (PWM counters, END bit of 0x0D4, unmodelled configuration bits) are put back by hand so that cases are independent
    for (uint16_t o : {0x2C, 0x2E, 0x3C, 0x3E, 0x0D4, 0x20, 0x30, 0x11A, 0x1DA})
        s.t->MMIOWrite(o, 0);
    for (uint16_t i = 0; i < 3; ++i) {
        s.t->MMIOWrite(0x0E2 + 6 * i, 0);
        s.t->MMIOWrite(0x0E4 + 6 * i, 0);
    }
    for (uint16_t i = 0; i < 16; ++i)
        s.t->MMIOWrite(0x212 + 4 * i, 0);
    mmiomap::Model m;
    Access io{s, m};
    std::string trace;
    bool changed_model = false;
    std::set<unsigned> channels_written;
    auto fail = [&](const std::string& sig, const std::string& what, size_t i) {
        return vf::Result::fail(sig, what + " at op " + std::to_string(i) + " (" + trace + ")");
    };
    for (size_t i = 0; i < cs.size(); ++i) {
        const Op& op = cs[i];
        mmiomap::Model before = m;
        std::string opsig = kKindName[op.kind];
        try {
            switch (op.kind) {
            case Write: {
                uint16_t off = op.off & 0x7FF, v = legal_value(off, op.v);
                trace += "w" + std::to_string(op.path == 1 && io.dsp_path_ok(off) ? 1 : (op.path >= 2 ? 2 : 0)) + "[" + vf::hex(off) + "]=" + vf::hex(v) + " ";
                opsig = "write:" + vf::hex(off);
                io.wr(off, v, op.path);
                bool known = mmiomap::write(m, off, v);
                if (!known)
                    vf::klass("write to an undocumented offset");
                else if (op.path >= 2)
                    vf::klass("write through a mirror");
                else if (op.path == 1 && io.dsp_path_ok(off))
                    vf::klass(m.mmio_base != 0x8000 ? "write through the relocated DSP window" : "write through the DSP window");
                if (off >= 0x1C0 && off <= 0x1DE)
                    channels_written.insert(m.dma_channel & 7);
                break;
            }
            case ReadCmd: {
                int ch = op.off % 3;
                trace += "rcmd" + std::to_string(ch) + " ";
                uint16_t got = io.rd(0x0C2 + 4 * ch, op.path);
                if (got != m.cmd[ch])
                    return fail("C12:readcmd", "CMD" + std::to_string(ch) + " returned " + vf::hex(got) + " instead of " + vf::hex(m.cmd[ch]), i);
                m.cmd_ready[ch] = false;
                break;
            }
            case HostSend: {
                int ch = op.off % 3;
                trace += "hsend" + std::to_string(ch) + "=" + vf::hex(op.v) + " ";
                s.t->SendData(ch, op.v);
                m.cmd[ch] = op.v;
                m.cmd_ready[ch] = true;
                if (!m.cmd_irq_disabled(ch))
                    m.pending |= 0x4000;
                break;
            }
            case HostSetSem: {
                if (op.off % 3 == 1) { // host acknowledges bits of the DSP -> CPU semaphore (the DSP reads that semaphore back at 0x0CC)
                    trace += "hack=" + vf::hex(op.v) + " ";
                    s.t->ClearSemaphore(op.v);
                    m.sem_d2c &= (uint16_t)~op.v;
                    vf::klass("host ClearSemaphore / MaskSemaphore between register accesses");
                    break;
                }
                if (op.off % 3 == 2) { // host masks the DSP -> CPU semaphore: its own mask, no DSP-side register shows it
                    trace += "hmask=" + vf::hex(op.v) + " ";
                    s.t->MaskSemaphore(op.v);
                    vf::klass("host ClearSemaphore / MaskSemaphore between register accesses");
                    break;
                }
                trace += "hsem=" + vf::hex(op.v) + " ";
                bool was = m.sem_flag();
                s.t->SetSemaphore(op.v);
                m.sem_c2d |= op.v;
                if (m.sem_flag() && !was)
                    m.pending |= 0x4000;
                else if (m.sem_flag() && was) // a repeated interrupt while the flag stays set is permitted, not required
                    m.pending = (m.pending & ~0x4000) | (s.t->MMIORead(0x200) & 0x4000);
                break;
            }
            case HostQuery: { // host-side getters of the facade: they return channel 0's address words / an AHBM field and change nothing
                trace += "hquery" + std::to_string(op.off % 5) + " ";
                uint16_t got = 0, want = 0;
                switch (op.off % 5) {
                case 0:
                    got = s.t->DMAChan0GetSrcHigh();
                    want = m.dma[0][(0x1C2 - 0x1C0) / 2];
                    break;
                case 1:
                    got = s.t->DMAChan0GetDstHigh();
                    want = m.dma[0][(0x1C6 - 0x1C0) / 2];
                    break;
                case 2:
                    got = want = s.t->AHBMGetUnitSize((uint16_t)(op.v % 3));
                    break;
                case 3:
                    got = want = s.t->AHBMGetDirection((uint16_t)(op.v % 3));
                    break;
                default:
                    got = want = s.t->AHBMGetDmaChannel((uint16_t)(op.v % 3));
                    break;
                }
                if (got != want)
                    return fail("C12:hostquery:value", "host query " + std::to_string(op.off % 5) + " returned " + vf::hex(got) + " instead of " + vf::hex(want), i);
                vf::klass("host-side facade query between register accesses");
                break;
            }
            case DmaStart: {
                // a bounded transfer inside DSP data memory, then the documented start value
                uint16_t v = op.v;
                std::vector<std::array<uint16_t, 2>> cfg = {{0x1C2, 0}, {0x1C6, 0}, {0x1C0, (uint16_t)(0x1000 + (v & 0xFF))}, {0x1C4, (uint16_t)(0x3000 + (op.off & 0xFF))},
                                     {0x1C8, (uint16_t)(v & 3)}, {0x1CA, (uint16_t)((v >> 2) & 3)}, {0x1CC, (uint16_t)((v >> 4) & 3)},
                                     {0x1CE, (uint16_t)((v >> 6) & 3)}, {0x1D0, (uint16_t)((v >> 8) & 3)}, {0x1D2, (uint16_t)((v >> 10) & 3)},
                                     {0x1D4, (uint16_t)((v >> 12) & 3)}, {0x1D6, 1}, {0x1D8, 2}, {0x1DA, (uint16_t)((v & 0x8000) ? 0x0400 : 0)}, {0x1DE, 0x40C0}};
                const uint64_t hsel = vf::mix64(((uint64_t)op.off << 16) | op.v);
                if (hsel & 1) {
                    // external source through AHBM channel k, bursts allowed and the element count free: a transfer that ends
                    // inside a burst leaves prefetched units behind in the bridge (its registers must still hold what is written)
                    const bool dword = (v & 0x8000) != 0;
                    const uint16_t k = (uint16_t)((hsel >> 1) % 3), burst = (uint16_t)((hsel >> 8) % 3), unit = dword ? 4 : 2;
                    const uint16_t n = (uint16_t)(1 + (hsel >> 16) % 9);
                    cfg = {{(uint16_t)(0x0E2 + 6 * k), (uint16_t)(((dword ? 2 : 1) << 4) | (burst << 1))},
                           {(uint16_t)(0x0E4 + 6 * k), 0},
                           {(uint16_t)(0x0E6 + 6 * k), (uint16_t)(1u << (m.dma_channel & 7))},
                           {0x1C0, (uint16_t)(0x2000 + 8 * (v & 0xF8))}, {0x1C2, 0x1000}, {0x1C4, (uint16_t)(0x3000 + (op.off & 0xFE))}, {0x1C6, 0},
                           {0x1C8, (uint16_t)(dword ? 2 * n : n)}, {0x1CA, 1}, {0x1CC, 1},
                           {0x1CE, unit}, {0x1D0, (uint16_t)(dword ? 2 : 1)}, {0x1D2, unit}, {0x1D4, 1}, {0x1D6, unit}, {0x1D8, 1},
                           {0x1DA, (uint16_t)(7 | (dword ? 0x0400 : 0))}, {0x1DE, 0x40C0}};
                    vf::klass(std::string("DMA start from external memory (") + (burst ? "burst, " : "") + (burst && n % (burst == 1 ? 4 : 8) ? "ends inside a burst)" : "whole units)"));
                }
                trace += "dmastart(ch" + std::to_string(m.dma_channel & 7) + ") ";
                for (auto& c : cfg) {
                    io.wr(c[0], c[1], op.path);
                    mmiomap::write(m, c[0], c[1]);
                }
                vf::klass("DMA start");
                break;
            }
            }
        } catch (const TeakraVerifAssertFailure& e) {
            return fail(std::string("C12:assert:") + e.expression, std::string("assertion ") + e.expression + " fired on a register access inside the documented map", i);
        }
        // sweep: every side-effect-free documented register, through a generated path
        for (uint16_t off : mmiomap::sweep()) {
            bool known;
            uint16_t want = mmiomap::read(m, off, known);
            if (!known)
                continue;
            uint16_t got;
            try {
                got = io.rd(off, (uint16_t)((op.sweep_path + off) % 3 == 1 ? 1 : ((op.sweep_path + off) % 3 == 2 ? 2 + op.sweep_path : 0)));
            } catch (const TeakraVerifAssertFailure& e) {
                return fail(std::string("C12:assert:read:") + e.expression, "reading " + vf::hex(off) + " asserted", i);
            }
            uint16_t mask = mmiomap::documented_mask(off);
            if ((got & mask) != (want & mask)) {
                bool known_before;
                uint16_t wb = mmiomap::read(before, off, known_before);
                bool self = op.kind == Write && (op.off & 0x7FF) == off;
                std::string kind = self ? "readback" : ((wb & mask) == (got & mask) ? "missing-coupling" : "alias");
                return fail("C12:" + kind + ":" + vf::hex(off) + ":" + opsig,
                            "register " + vf::hex(off) + " reads " + vf::hex(got & mask) + " but the register map says " + vf::hex(want & mask) +
                                (self ? " (it was just written)" : " (another register was accessed)"),
                            i);
            }
        }
        bool k1, k2;
        if (op.kind != Write || mmiomap::read(before, op.off & 0x7FF, k1) != mmiomap::read(m, op.off & 0x7FF, k2))
            changed_model = true;
    }
    if (channels_written.size() >= 2)
        vf::klass("DMA window used with >= 2 channels");
    vf::note(vf::hash_str(encode(cs)), changed_model);
    if (changed_model && cs.size() <= 6)
        vf::sample(trace);
    return vf::Result::pass();
}

} // namespace

int main(int argc, char** argv) {
    vf::init(argc, argv, "C12");
    vf::Property<Case> p;
    p.name = "mmio_history";
    // half of the histories concentrate on one peripheral (the documented couplings need several writes to the same block: e.g.
    // start value, configuration with restart, mirror, event write), with configuration values built from the documented fields
    p.gen = [] {
        using namespace rc;
        return gen::map(gen::tuple(gen::container<Case>(genOp()), vf::range<unsigned>(0, 20), gen::resize(100, gen::arbitrary<uint64_t>())),
                        [](std::tuple<Case, unsigned, uint64_t> t) {
                            Case c = std::get<0>(t);
                            unsigned focus = std::get<1>(t);
                            if (focus >= 10)
                                return c; // unfocused
                            static const std::vector<std::vector<uint16_t>> groups = {
                                {0x20, 0x22, 0x24, 0x26, 0x28, 0x2A, 0x20, 0x22},
                                {0x30, 0x32, 0x34, 0x36, 0x38, 0x3A, 0x30, 0x32},
                                {0x0C0, 0x0C2, 0x0C4, 0x0C6, 0x0C8, 0x0CA, 0x0CC, 0x0CE, 0x0D0, 0x0D2, 0x0D4, 0x0D6, 0x0D8},
                                {0x0E0, 0x0E2, 0x0E4, 0x0E6, 0x0E8, 0x0EA, 0x0EC, 0x0EE, 0x0F0, 0x0F2},
                                {0x10E, 0x110, 0x112, 0x114, 0x116, 0x11A, 0x11E},
                                {0x184, 0x18C, 0x1BE, 0x1C0, 0x1C4, 0x1C8, 0x1CA, 0x1CC, 0x1DA, 0x1DC, 0x1BE, 0x1DA},
                                {0x200, 0x202, 0x204, 0x206, 0x208, 0x20A, 0x20C, 0x212, 0x214, 0x24E, 0x250},
                                {0x2A2, 0x2BE, 0x2C2, 0x2C6, 0x2CA, 0x2C6, 0x2BE},
                                {0x322, 0x33E, 0x342, 0x346, 0x34A, 0x346, 0x33E},
                                {0x20, 0x30, 0x0D4, 0x0CE, 0x1BE, 0x1DA, 0x11E, 0x2BE, 0x2CA},
                            };
                            vf::Stream s(std::get<2>(t));
                            const auto& g = groups[focus];
                            for (auto& op : c) {
                                if (op.kind != Write || !s.chance(7, 10))
                                    continue;
                                op.off = g[s.below(g.size())];
                                if (op.off == 0x20 || op.off == 0x30) // timer configuration: CM, PC, MU, RES from the documented fields
                                    op.v = (uint16_t)((s.below(4) << 2) | (s.chance(1, 5) ? 0x0100 : 0) | (s.bits(1) << 9) | (s.bits(1) << 10));
                                else if (op.off == 0x24 || op.off == 0x34 || op.off == 0x22 || op.off == 0x32)
                                    op.v = (uint16_t)s.below(6);
                                else if (op.off == 0x26 || op.off == 0x36)
                                    op.v = (uint16_t)s.below(2);
                            }
                            return c;
                        });
    };
    p.check = check;
    p.encode = encode;
    p.decode = decode;
    p.max_size = 80;
    vf::run(p);
    return vf::finish();
}
