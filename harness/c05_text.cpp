// C05 -- assembly text <-> machine code.
//  RT   (complete over all printable first words) text -> assembler -> opcode' : valid, same need for a second word,
//       same text for several second words, same execution on generated states
//  GRP  (complete) words that print the same text differ only in bits the table declares Unused<>
//  JOIN Do() == token list joined by four spaces (with and without ar/arp annotation)
//  CB   C binding: returns strlen(Do()), writes at most dstlen bytes, always NUL-terminates; every buffer size 0..len+4
//  FW   the four hwtest firmware sources assemble (makedsp1's own main) to the shipped cdc.bin byte for byte, and
//       disassembling the binary gives back the source's instruction stream
#include <fstream>
#include <map>

#include "gen_recorder.h"
#include "icase.h"
#include "optable.h"
#include "parser.h"
#include "teakra/disassembler.h"
#include "teakra/disassembler_c.h"
#include "vf.h"


namespace {

struct TextEntry {
    const char* name;
    unsigned pattern;
    unsigned unused;
};
const TextEntry kText[] = VERIF_TABLE_TEXT_ENTRIES;
const int kTextCount = sizeof kText / sizeof kText[0];

using Tokens = std::vector<std::string>;

icase::Machine& sut() {
    static icase::Machine* m = new icase::Machine(ICASE_FNS(sut_));
    return *m;
}
std::unique_ptr<Teakra::Parser>& parser() {
    static std::unique_ptr<Teakra::Parser> p = Teakra::GenerateParser();
    return p;
}
bool has_error(const Tokens& t) {
    for (auto& s : t)
        if (s.find("[ERROR]") != std::string::npos)
            return true;
    return false;
}
std::string join(const Tokens& t, const char* sep) {
    std::string s;
    for (size_t i = 0; i < t.size(); ++i)
        s += (i ? sep : "") + t[i];
    return s;
}
unsigned unused_mask(uint16_t w) {
    const optable::Info& i = optable::info(w);
    return (i.entry >= 0 && i.entry < kTextCount) ? kText[i.entry].unused : 0;
}

std::string body_of(const char* sub, uint16_t w, uint16_t x, uint64_t seed, uint64_t n) {
    return std::string(sub) + " " + vf::hex(w) + " " + vf::hex(x) + " " + vf::hex(seed) + " " + vf::hex(n) + "\n";
}

// ---- RT ----------------------------------------------------------------------------------------------------
vf::Result sub_RT_text(uint16_t w, uint16_t x) {
    Tokens t0 = Teakra::Disassembler::GetTokenList(w, 0);
    if (has_error(t0))
        return vf::Result::pass();
    const optable::Info& i = optable::info(w);
    auto p = parser()->Parse(t0);
    if (p.status == Teakra::Parser::Opcode::Invalid)
        return vf::Result::fail("C05:RT:invalid:" + i.name, "text of " + vf::hex(w) + " '" + join(t0, " ") + "' does not assemble");
    bool pexp = p.status == Teakra::Parser::Opcode::ValidWithExpansion;
    if (pexp != Teakra::Disassembler::NeedExpansion(w))
        return vf::Result::fail("C05:RT:expansion:" + i.name, "'" + join(t0, " ") + "': assembler says expansion=" + std::to_string(pexp) +
                                                                  " but the disassembler says " + std::to_string(!pexp));
    Tokens a = Teakra::Disassembler::GetTokenList(w, x), b = Teakra::Disassembler::GetTokenList(p.opcode, x);
    if (a != b)
        return vf::Result::fail("C05:RT:text:" + i.name, "'" + join(a, " ") + "' (" + vf::hex(w) + ") assembles to " + vf::hex(p.opcode) + " which prints '" +
                                                             join(b, " ") + "' for second word " + vf::hex(x));
    return vf::Result::pass();
}

vf::Result sub_RT_exec(uint16_t w, uint16_t x, uint64_t seed) {
    Tokens t0 = Teakra::Disassembler::GetTokenList(w, 0);
    if (has_error(t0))
        return vf::Result::pass();
    auto p = parser()->Parse(t0);
    if (p.status == Teakra::Parser::Opcode::Invalid || p.opcode == w)
        return vf::Result::pass(); // (invalid is reported by RT_text)
    const optable::Info& i = optable::info(w);
    vf::Stream s(seed);
    icase::ICase c;
    c.st = icase::gen_state(s, 8);
    c.opcode = w;
    c.expansion = x;
    c.pokes = icase::gen_pokes(s, c.st, w, x);
    icase::IResult r1 = sut().exec(c);
    c.opcode = p.opcode;
    icase::IResult r2 = sut().exec(c);
    // program and data space share one array: an instruction whose data operand is its own first / second word sees the differing
    // encoding as *data*; that is no difference in execution
    {
        uint32_t pc = (uint32_t)c.st[flat::F_pc];
        size_t idx = 0, nfetch = 1 + (i.expanded ? 1 : 0);
        for (auto& a : r1.log)
            if (idx++ >= nfetch && !a.write && (a.addr == (pc & 0x3FFFF) || a.addr == ((pc + 1) & 0x3FFFF)))
                return vf::Result::pass();
    }
    if (r1.outcome != r2.outcome || (r1.outcome == 0 && (!(r1.after == r2.after) || r1.writes != r2.writes)))
        return vf::Result::fail("C05:RT:exec:" + i.name, "'" + join(t0, " ") + "': " + vf::hex(w) + " and its re-assembly " + vf::hex(p.opcode) +
                                                             " execute differently: " + flat::diff(r1.after, r2.after));
    return vf::Result::pass();
}

// ---- GRP ---------------------------------------------------------------------------------------------------
std::map<std::string, std::vector<uint16_t>>& groups() {
    static std::map<std::string, std::vector<uint16_t>>* g = [] {
        auto* m = new std::map<std::string, std::vector<uint16_t>>;
        for (uint32_t w = 0; w < 0x10000; ++w) {
            Tokens t = Teakra::Disassembler::GetTokenList((uint16_t)w, 0);
            if (!has_error(t))
                (*m)[join(t, "\x1f")].push_back((uint16_t)w);
        }
        return m;
    }();
    return *g;
}
vf::Result sub_GRP(uint16_t w) { // w = smallest member of its group
    Tokens t = Teakra::Disassembler::GetTokenList(w, 0);
    auto it = groups().find(join(t, "\x1f"));
    if (it == groups().end())
        return vf::Result::pass();
    for (uint16_t o : it->second) {
        unsigned d = w ^ o;
        if (d & ~unused_mask(w))
            return vf::Result::fail("C05:GRP:collision:" + optable::info(w).name, "'" + join(t, " ") + "' is printed for both " + vf::hex(w) + " (" +
                                                                                      optable::info(w).form + ") and " + vf::hex(o) + " (" +
                                                                                      optable::info(o).form + "), which differ in used bits " + vf::hex(d & ~unused_mask(w)));
    }
    return vf::Result::pass();
}

// ---- JOIN --------------------------------------------------------------------------------------------------
vf::Result sub_JOIN(uint16_t w, uint16_t x, uint64_t seed) {
    vf::Stream s(seed);
    std::optional<Teakra::Disassembler::ArArpSettings> st;
    if (seed & 1) {
        Teakra::Disassembler::ArArpSettings a;
        for (auto& v : a.ar)
            v = (uint16_t)s.bits(16);
        for (auto& v : a.arp)
            v = (uint16_t)s.bits(16);
        st = a;
    }
    Tokens t = Teakra::Disassembler::GetTokenList(w, x, st);
    std::string d = Teakra::Disassembler::Do(w, x, st);
    if (d != join(t, "    "))
        return vf::Result::fail("C05:JOIN", "Do(" + vf::hex(w) + "," + vf::hex(x) + ") = '" + d + "' but the token list is '" + join(t, "|") + "'");
    return vf::Result::pass();
}

// ---- CB ----------------------------------------------------------------------------------------------------
vf::Result sub_CB(uint16_t w, uint16_t x, uint64_t seed, uint64_t n) {
    std::string text = Teakra::Disassembler::Do(w, x);
    const size_t len = text.size();
    const size_t Z = 512; // canary zones large enough to hold a complete runaway copy
    const unsigned char fill = (unsigned char)(0x80 | (seed & 0x7F));
    std::vector<unsigned char> buf(Z + n + Z, fill);
    char* dst = (char*)buf.data() + Z;
    size_t ret = Teakra_Disasm_Do(dst, n, w, x);
    std::string where = " (opcode " + vf::hex(w) + " " + vf::hex(x) + ", text length " + std::to_string(len) + ", buffer size " + std::to_string(n) + ")";
    if (ret != len)
        return vf::Result::fail("C05:CB:return", "Teakra_Disasm_Do returned " + std::to_string(ret) + where);
    for (size_t k = 0; k < Z; ++k)
        if (buf[k] != fill)
            return vf::Result::fail(n == 0 ? "C05:CB:underflow:size0" : "C05:CB:underflow", "byte " + std::to_string((long)k - (long)Z) + " before the buffer was overwritten" + where);
    for (size_t k = 0; k < Z; ++k)
        if (buf[Z + n + k] != fill)
            return vf::Result::fail(n == 0 ? "C05:CB:overflow:size0" : "C05:CB:overflow", "byte " + std::to_string(n + k) + " (beyond the buffer) was overwritten" + where);
    if (n >= 1) {
        size_t copy = std::min(len, n - 1);
        if (std::memcmp(dst, text.data(), copy) != 0)
            return vf::Result::fail("C05:CB:prefix", "buffer does not start with the text prefix" + where);
        if (std::memchr(dst, 0, n) == nullptr)
            return vf::Result::fail("C05:CB:nul", "no NUL terminator inside the buffer" + where);
        if (dst[copy] != 0)
            return vf::Result::fail("C05:CB:nul-position", "text is not terminated right after the copied prefix" + where);
    }
    // exact-size heap buffer: ASan turns any out-of-buffer access into a report
    if (n >= 1) {
        char* tight = (char*)std::malloc(n);
        Teakra_Disasm_Do(tight, n, w, x);
        std::free(tight);
    }
    if (Teakra_Disasm_Do(nullptr, n, w, x) != len)
        return vf::Result::fail("C05:CB:null", "Teakra_Disasm_Do(NULL, ...) returned a different length" + where);
    if (Teakra_Disasm_NeedExpansion(w) != Teakra::Disassembler::NeedExpansion(w))
        return vf::Result::fail("C05:CB:needexpansion", "C binding and C++ API disagree on NeedExpansion" + where);
    return vf::Result::pass();
}

// ---- FW ----------------------------------------------------------------------------------------------------
std::vector<uint8_t> slurp(const std::string& p) {
    std::ifstream f(p, std::ios::binary);
    return std::vector<uint8_t>((std::istreambuf_iterator<char>(f)), std::istreambuf_iterator<char>());
}
Tokens split_src(const std::string& in) {
    Tokens out;
    bool need_new = true;
    for (char ch : in) {
        if (ch == ' ' || ch == '\t') {
            need_new = true;
        } else {
            if (need_new) {
                need_new = false;
                out.push_back("");
            }
            out.back() += ch;
        }
    }
    return out;
}

vf::Result sub_FW(const std::string& name) {
    std::string repo = std::getenv("VERIF_REPO") ? std::getenv("VERIF_REPO") : "/repo";
    std::string src = repo + "/hwtest/" + name + "/firm/source", bin = repo + "/hwtest/" + name + "/data/cdc.bin";
    std::string out = vf::ctx().faildir + "/../../build/run/c05-" + name + "-" + std::to_string(getpid()) + ".bin";
    vf::detail::write_file(out, "");
    // the repository's makedsp1, built unmodified next to this executable
    char self[4096];
    ssize_t sl = readlink("/proc/self/exe", self, sizeof self - 1);
    self[sl > 0 ? sl : 0] = 0;
    std::string tool = std::string(self).substr(0, std::string(self).rfind('/')) + "/makedsp1";
    std::string cmd = "ASAN_OPTIONS=detect_leaks=0 '" + tool + "' '" + src + "' '" + out + "' >/dev/null 2>&1";
    int rc = std::system(cmd.c_str());
    std::vector<uint8_t> made = slurp(out), shipped = slurp(bin);
    std::remove(out.c_str());
    if (rc != 0)
        return vf::Result::fail("C05:FW:assemble:" + name, "makedsp1 failed on " + src + " (rc " + std::to_string(rc) + ")");
    if (shipped.empty())
        return vf::Result::fail("C05:FW:missing:" + name, "shipped binary " + bin + " not found");
    if (made != shipped) {
        size_t k = 0;
        while (k < made.size() && k < shipped.size() && made[k] == shipped[k])
            ++k;
        return vf::Result::fail("C05:FW:bytes:" + name, "assembled " + src + " differs from the shipped cdc.bin at byte " + vf::hex(k) + " (sizes " +
                                                            std::to_string(made.size()) + " / " + std::to_string(shipped.size()) + ")");
    }
    // disassemble the shipped binary along the source
    struct Seg {
        uint32_t offset, address, size;
        uint8_t type;
    };
    std::vector<Seg> segs;
    unsigned nseg = shipped.size() > 0x10E ? shipped[0x10E] : 0;
    for (unsigned i = 0; i < nseg; ++i) {
        const uint8_t* p = shipped.data() + 0x120 + i * 0x30;
        Seg s;
        std::memcpy(&s.offset, p, 4);
        std::memcpy(&s.address, p + 4, 4);
        std::memcpy(&s.size, p + 8, 4);
        s.type = p[15];
        segs.push_back(s);
    }
    std::ifstream in(src);
    std::string line;
    int lineno = 0, seg = -1;
    size_t pos = 0, instructions = 0;
    auto word = [&](const Seg& s, size_t i) { return (uint16_t)(shipped[s.offset + 2 * i] | (shipped[s.offset + 2 * i + 1] << 8)); };
    while (std::getline(in, line)) {
        ++lineno;
        auto cpos = line.find("//");
        if (cpos != std::string::npos)
            line.erase(cpos);
        std::string stripped;
        for (char ch : line)
            if (ch != '$')
                stripped += ch;
        Tokens t = split_src(stripped);
        if (t.empty())
            continue;
        if (t[0] == "segment") {
            if (seg >= 0 && pos * 2 != segs[seg].size)
                return vf::Result::fail("C05:FW:segment-size:" + name, "segment " + std::to_string(seg) + " has " + std::to_string(segs[seg].size) +
                                                                           " bytes but the source describes " + std::to_string(pos * 2));
            ++seg;
            pos = 0;
            if (seg >= (int)segs.size())
                return vf::Result::fail("C05:FW:segments:" + name, "more segments in the source than in the binary");
            continue;
        }
        if (seg < 0)
            continue;
        if (pos * 2 >= segs[seg].size)
            return vf::Result::fail("C05:FW:overrun:" + name, "source line " + std::to_string(lineno) + " lies beyond its binary segment");
        if (t[0] == "data") {
            if (word(segs[seg], pos) != (uint16_t)std::stoi(t[1], 0, 16))
                return vf::Result::fail("C05:FW:data:" + name, "data word at line " + std::to_string(lineno) + " differs");
            ++pos;
            continue;
        }
        uint16_t w = word(segs[seg], pos++), x = 0;
        if (Teakra::Disassembler::NeedExpansion(w))
            x = word(segs[seg], pos++);
        Tokens d = Teakra::Disassembler::GetTokenList(w, x);
        ++instructions;
        // the four expansion digits are parsed with stoi (case-insensitive); everything else is lower case anyway
        auto lower = [](Tokens v) {
            for (auto& tok : v)
                for (auto& ch : tok)
                    ch = (char)std::tolower((unsigned char)ch);
            return v;
        };
        if (lower(d) != lower(t))
            return vf::Result::fail("C05:FW:stream:" + name, name + " line " + std::to_string(lineno) + ": source '" + join(t, " ") + "' but the binary (" +
                                                                 vf::hex(w) + " " + vf::hex(x) + ") disassembles to '" + join(d, " ") + "'");
    }
    vf::klass("firmware instructions compared (" + name + ")", instructions);
    return vf::Result::pass();
}

vf::Result run_body(const std::string& body) {
    auto ls = vf::lines(body);
    auto t = vf::split_ws(ls.empty() ? "" : ls[0]);
    if (t.size() < 2)
        return vf::Result::pass();
    if (t[0] == "FW")
        return sub_FW(t[1]);
    if (t.size() < 5)
        return vf::Result::pass();
    uint16_t w = (uint16_t)vf::unhex(t[1]), x = (uint16_t)vf::unhex(t[2]);
    uint64_t seed = vf::unhex(t[3]), n = vf::unhex(t[4]);
    if (t[0] == "RTt")
        return sub_RT_text(w, x);
    if (t[0] == "RTx")
        return sub_RT_exec(w, x, seed);
    if (t[0] == "GRP")
        return sub_GRP(w);
    if (t[0] == "JOIN")
        return sub_JOIN(w, x, seed);
    if (t[0] == "CB")
        return sub_CB(w, x, seed, n);
    return vf::Result::pass();
}

} // namespace

int main(int argc, char** argv) {
    vf::init(argc, argv, "C05");
    vf::Ctx& c = vf::ctx();
    const std::string prop = "text_enum";
    if (vf::enum_replay(prop, run_body))
        return vf::finish();
    const bool thorough = c.tier == "thorough";
    const int n_second = thorough ? 64 : 8, n_states = thorough ? 64 : 8;
    uint64_t printable = 0, with_operands = 0, truncations = 0, reassembled_differently = 0, grouped = 0;
#define RUN(SUB, CALL, BODY)                                                                                           \
    do {                                                                                                               \
        c.current = [&] { return BODY; };                                                                              \
        vf::enum_result(prop, CALL, [&] { return BODY; }, [&] { return CALL; });                                       \
        ++c.evaluations;                                                                                               \
    } while (0)
    c.current_prop = prop;
    for (uint32_t wi = 0; wi < 0x10000; ++wi) {
        if ((int)(wi % (uint32_t)c.workers) != c.worker)
            continue;
        uint16_t w = (uint16_t)wi;
        Tokens t0 = Teakra::Disassembler::GetTokenList(w, 0);
        bool ok = !has_error(t0);
        vf::Stream s(vf::mix64(c.seed * 7919 + wi));
        // JOIN and CB are defined for every word, printable or not
        for (int k = 0; k < (thorough ? 4 : 2); ++k) {
            uint16_t x = k == 0 ? 0 : (uint16_t)s.bits(16);
            uint64_t seed = s.next();
            RUN("JOIN", sub_JOIN(w, x, seed), body_of("JOIN", w, x, seed, 0));
        }
        if (thorough || (wi % 4) == (uint32_t)(c.seed % 4) || !ok) {
            uint16_t x = (uint16_t)s.bits(16);
            uint64_t seed = s.next();
            size_t len = Teakra::Disassembler::Do(w, x).size();
            for (size_t n = 0; n <= len + 4; ++n) {
                RUN("CB", sub_CB(w, x, seed, n), body_of("CB", w, x, seed, n));
                if (n <= len)
                    ++truncations;
            }
        }
        if (!ok) {
            vf::note(vf::mix64(wi + 1), false);
            continue;
        }
        ++printable;
        bool operands = t0.size() > 1;
        with_operands += operands;
        for (int k = 0; k < n_second; ++k) {
            uint16_t x = k == 0 ? 0 : (k == 1 ? 0xFFFF : (uint16_t)s.bits(16));
            RUN("RTt", sub_RT_text(w, x), body_of("RTt", w, x, 0, 0));
        }
        auto p = parser()->Parse(t0);
        if (p.status != Teakra::Parser::Opcode::Invalid && p.opcode != w) {
            ++reassembled_differently;
            for (int k = 0; k < n_states; ++k) {
                uint16_t x = (uint16_t)s.bits(16);
                uint64_t seed = s.next();
                RUN("RTx", sub_RT_exec(w, x, seed), body_of("RTx", w, x, seed, 0));
            }
        }
        auto git = groups().find(join(t0, "\x1f"));
        if (git != groups().end() && git->second.size() > 1 && git->second.front() == w) {
            ++grouped;
            RUN("GRP", sub_GRP(w), body_of("GRP", w, 0, 0, 0));
        }
        vf::note(vf::mix64(wi + 1), operands);
        if (c.samples.size() < 6 && (wi % 8191) == (uint32_t)c.worker)
            vf::sample(vf::hex(w) + ": '" + join(t0, " ") + "' -> assembles to " + vf::hex(p.opcode));
    }
    if (c.worker == 0) {
        for (const char* fw : {"dsptester", "dspapbptester", "dspmemorytester", "dspvictester"}) {
            std::string name = fw;
            RUN("FW", sub_FW(name), std::string("FW ") + name + "\n");
        }
    }
    c.current = nullptr;
    vf::klass("printable first words", printable);
    vf::klass("printable words with operands", with_operands);
    vf::klass("words whose text re-assembles to a different opcode (execution compared)", reassembled_differently);
    vf::klass("text groups with more than one opcode", grouped);
    vf::klass("C-binding calls with a buffer too small for the text", truncations);
    c.exhaustive["RT/GRP over all printable first words (this worker's residue class)"] = true;
    if (c.subchecks.find(prop) == c.subchecks.end())
        c.subchecks[prop] = "all enumerated cases ok";
    return vf::finish();
}
