// C01 -- instruction effects match the hardware-validated reference.
//  (a) differential: one instruction from one generated machine state on the current tree (sut_*, ASan/UBSan)
//      and on the frozen pinned-commit interpreter (ref_*, libref.so); where the reference completes, outcome,
//      every register/flag/shadow field, pc and every data/program memory write must be identical.
//  (b) the project's own hardware test generator, streamed through a FIFO: every vector executes without
//      aborting, advances pc by the instruction length and touches data memory only inside the two windows.
#ifdef C01_LIBFUZZER
#include <fuzzer/FuzzedDataProvider.h>
#endif

#include "genstream.h"
#include "icase.h"
#include "optable.h"
#include "vf.h"

namespace {

using icase::ICase;
using icase::IResult;

icase::Machine& sut() {
    static icase::Machine* m = new icase::Machine(ICASE_FNS(sut_));
    return *m;
}
icase::Machine& ref() {
    static icase::Machine* m = new icase::Machine(ICASE_FNS(ref_));
    return *m;
}

std::vector<uint64_t> g_entry_done; // completed (ref ok) cases per decode-table entry

struct Seed {
    uint64_t seed;
    int entry;      // -1: uniform 16-bit first word
    uint32_t pick;  // which word of the entry
    uint16_t expansion;
    unsigned density; // 0..8
    unsigned irq;     // 0..15
};

ICase build(const Seed& sd) {
    vf::Stream s(sd.seed);
    ICase c;
    if (sd.entry >= 0) {
        const auto& ws = optable::words_of_entry(sd.entry % optable::entry_count());
        c.opcode = ws[sd.pick % ws.size()];
    } else {
        c.opcode = (uint16_t)sd.pick;
    }
    c.expansion = sd.expansion;
    c.st = icase::gen_state(s, sd.density);
    c.pokes = icase::gen_pokes(s, c.st, c.opcode, c.expansion);
    c.irq_mask = sd.irq & 7;
    return c;
}

// Inputs on which the *reference itself* has undefined behaviour (so it does not "complete" in any defined
// sense): excluded by construction and counted. Each is a C18 finding, listed there.
bool reference_has_ub(const ICase& c, const optable::Info& info) {
    if (info.form == "tstb(SttMod,Imm16)" && c.expansion >= 32)
        return true; // value >> imm16 with imm16 >= 32: shift exponent too large (interpreter.h tstb)
    return false;
}

vf::Result check(const ICase& c) {
    if (reference_has_ub(c, optable::info(c.opcode))) {
#ifndef C01_LIBFUZZER
        vf::klass("excluded: reference has undefined behaviour (see C18)");
        vf::note(0, false);
#endif
        return vf::Result::pass();
    }
    IResult rr = ref().exec(c);
    IResult rs = sut().exec(c);
    const optable::Info& info = optable::info(c.opcode);
    bool ref_complete = rr.outcome == 0 && rr.oob == 0;
    std::string where = info.form + " op=" + vf::hex(c.opcode) + " x=" + vf::hex(c.expansion);
    if (!ref_complete) {
#ifndef C01_LIBFUZZER
        vf::klass(rr.oob ? "ref-incomplete: out-of-range access" : (rr.outcome == 1 ? "ref-incomplete: unimplemented" : "ref-incomplete: assert"));
        vf::note(0, false);
#endif
        return vf::Result::pass();
    }
    if (rs.outcome != 0 || rs.oob != 0) {
        std::string kind = rs.oob ? "oob" : (rs.outcome == 1 ? "unimplemented" : (rs.outcome == 2 ? "assert" : "exception"));
        return vf::Result::fail("C01:outcome:" + kind + ":" + info.name,
                                "reference completes but the current tree ends with " + kind + " (" + rs.what + ") for " + where);
    }
    if (!(rs.after == rr.after)) {
        std::string d = flat::diff(rs.after, rr.after);
        std::string firstfield = d.substr(0, d.find(':'));
        return vf::Result::fail("C01:state:" + info.name + ":" + firstfield, "register state differs from the reference (sut vs ref) " + d + " for " + where);
    }
    if (rs.writes != rr.writes) {
        std::string d;
        for (auto& kv : rr.writes) {
            auto it = rs.writes.find(kv.first);
            if (it == rs.writes.end())
                d += "missing write @" + vf::hex(kv.first) + "=" + vf::hex(kv.second) + "; ";
            else if (it->second != kv.second)
                d += "@" + vf::hex(kv.first) + ": " + vf::hex(it->second) + " vs " + vf::hex(kv.second) + "; ";
        }
        for (auto& kv : rs.writes)
            if (!rr.writes.count(kv.first))
                d += "extra write @" + vf::hex(kv.first) + "=" + vf::hex(kv.second) + "; ";
        return vf::Result::fail("C01:memory:" + info.name, "memory writes differ from the reference: " + d + " for " + where);
    }
    // non-trivial: the reference completed and something other than pc changed
    flat::State before = c.st;
    flat::State after = rr.after;
    before[flat::F_pc] = after[flat::F_pc] = 0;
    // ip latches move into the state at the top of the cycle; not an effect of the instruction
    bool changed = !(before == after) || !rr.writes.empty();
    if (info.entry >= 0 && (size_t)info.entry < g_entry_done.size())
        ++g_entry_done[info.entry];
    vf::klass(info.entry < 0 ? "undefined word" : "ref-complete");
    if (!rr.writes.empty())
        vf::klass("with memory write");
    uint64_t h = vf::hash_bytes(c.st.v, sizeof c.st.v, c.opcode * 65536ull + c.expansion);
#ifdef C01_LIBFUZZER
    (void)h;
    (void)changed;
    return vf::Result::pass();
#endif
    vf::note(h, changed);
    if (changed && vf::ctx().samples.size() < 8 && (h % 5000) == 0)
        vf::sample(where + " | " + flat::encode(c.st).substr(0, 300) + " -> " + flat::diff(c.st, rr.after, 6));
    return vf::Result::pass();
}

rc::Gen<ICase> genCase() {
    using namespace rc;
    auto seedGen = gen::map(
        gen::tuple(gen::resize(100, gen::arbitrary<uint64_t>()), vf::range<int>(-110, 100000), gen::resize(100, gen::arbitrary<uint32_t>()), vf::u16b(),
                   gen::weightedElement<unsigned>({{1, 0}, {1, 1}, {1, 2}, {2, 4}, {8, 8}}), gen::weightedElement<unsigned>({{6, 0}, {1, 1}, {1, 2}, {1, 4}, {1, 7}})),
        [](std::tuple<uint64_t, int, uint32_t, uint16_t, unsigned, unsigned> t) {
            Seed sd;
            sd.seed = std::get<0>(t);
            int e = std::get<1>(t);
            sd.entry = e < 0 ? -1 : e; // ~1/900 ... replaced below by an explicit 20 % mixture
            sd.pick = std::get<2>(t);
            if ((sd.seed >> 60) < 3) // 3/16 of the cases: plain uniform first word (undefined words included)
                sd.entry = -1;
            sd.expansion = std::get<3>(t);
            sd.density = std::get<4>(t);
            sd.irq = std::get<5>(t);
            return build(sd);
        });
    return seedGen;
}

// ---- (b) generator clause ------------------------------------------------------------------------------------
struct VecStats {
    uint64_t vectors = 0, unimplemented = 0, with_access = 0;
};

// a failing vector is kept as its raw bytes in hex
std::string g_vec_failure_path;

vf::Result check_vector(icase::Machine& m, const std::vector<uint8_t>& bytes, VecStats& vs, bool count = true) {
    m.f.load_vector(m.core, bytes.data());
    uint16_t opcode = genstream::opcode_of(bytes), expand = genstream::expand_of(bytes);
    const optable::Info& info = optable::info(opcode);
    ShimRunInfo ri{};
    m.f.log_begin(m.core);
    m.f.run(m.core, 1, &ri);
    uint32_t n = 0;
    const ShimAccess* log = m.f.log_end(m.core, &n);
    flat::State after;
    m.f.get_state(m.core, &after);
    std::string where = info.form + " op=" + vf::hex(opcode) + " x=" + vf::hex(expand);
    if (count)
        ++vs.vectors;
    if (ri.outcome == 1) {
        if (count)
            ++vs.unimplemented; // test_verifier itself counts these as "skipped"
        return vf::Result::pass();
    }
    if (ri.outcome != 0)
        return vf::Result::fail("C01:vector:abort:" + info.name, "generator vector aborts: " + std::string(ri.what) + " for " + where);
    unsigned len = 1 + (info.expanded ? 1 : 0);
    if (after[flat::F_pc] != len)
        return vf::Result::fail("C01:vector:pc:" + info.name, "pc advanced by " + std::to_string(after[flat::F_pc]) + " instead of " +
                                                                 std::to_string(len) + " for " + where);
    bool any = false;
    for (uint32_t i = 0; i < n; ++i) {
        const ShimAccess& a = log[i];
        if (a.addr >= 0x20000 || a.oob) {
            uint32_t da = a.addr - 0x20000;
            any = true;
            bool inx = da >= 0x6400 && da < 0x6600, iny = da >= 0xCC00 && da < 0xCE00;
            if (a.oob || !(inx || iny))
                return vf::Result::fail("C01:vector:window:" + info.name, std::string(a.write ? "write" : "read") + " of data address " + vf::hex(da) +
                                                                             " outside the compared windows for " + where);
        }
    }
    if (any && count)
        ++vs.with_access;
    return vf::Result::pass();
}

void run_generator_clause() {
    vf::Ctx& c = vf::ctx();
    icase::Machine m(ICASE_FNS(sut_), 0x8000);
    const size_t vsz = (size_t)m.f.vector_size();
    if (!c.replay.empty()) {
        std::ifstream f(c.replay);
        std::string first;
        std::getline(f, first);
        if (first != "prop=generator_vectors")
            return;
        std::string hexs;
        std::getline(f, hexs);
        std::vector<uint8_t> bytes;
        for (size_t i = 0; i + 1 < hexs.size(); i += 2)
            bytes.push_back((uint8_t)std::strtoul(hexs.substr(i, 2).c_str(), nullptr, 16));
        VecStats vs;
        vf::Result r = bytes.size() == vsz ? check_vector(m, bytes, vs) : vf::Result::pass();
        ++c.evaluations;
        if (!r.ok)
            c.violations.push_back({"generator_vectors", r.sig, r.why, c.replay, true});
        return;
    }
    if (c.worker != 0 && c.tier == "quick")
        return; // quick: one pass, by worker 0; thorough: every worker streams its own pass
    uint32_t gseed = (uint32_t)vf::mix64(c.seed + 0x5151 + c.worker);
    VecStats vs;
    vf::Result first_fail;
    std::vector<uint8_t> fail_bytes;
    bool gen_ok = genstream::for_each_vector(gseed, vsz, [&](const std::vector<uint8_t>& buf) {
        c.current_prop = "generator_vectors";
        vf::Result r = check_vector(m, buf, vs);
        vf::note(vf::hash_bytes(buf.data(), buf.size()), true);
        if (!r.ok && first_fail.ok && !c.known.count(r.sig)) {
            first_fail = r;
            fail_bytes = buf;
        } else if (!r.ok && c.known.count(r.sig)) {
            auto& k = c.known_hits[r.sig];
            ++k.first;
            k.second = r.why;
        }
    });
    vf::klass("generator vectors", vs.vectors);
    vf::klass("generator vectors: unimplemented (tolerated, as test_verifier skips them)", vs.unimplemented);
    vf::klass("generator vectors with >=1 data access", vs.with_access);
    if (!gen_ok)
        vf::add_note("generator clause inconclusive: GenerateTestCasesToFile reported failure");
    if (!first_fail.ok) {
        std::string hexs;
        char b[4];
        for (uint8_t x : fail_bytes) {
            std::snprintf(b, sizeof b, "%02x", x);
            hexs += b;
        }
        char hb[32];
        std::snprintf(hb, sizeof hb, "%016" PRIx64, vf::hash_str(hexs));
        std::string path = c.faildir + "/generator_vectors-" + hb + ".case";
        vf::detail::write_file(path, "prop=generator_vectors\n" + hexs + "\n# sig=" + first_fail.sig + "\n# " + first_fail.why + "\n");
        int fails = 0;
        VecStats dummy;
        for (int i = 0; i < 3; ++i)
            if (!check_vector(m, fail_bytes, dummy, false).ok)
                ++fails;
        c.violations.push_back({"generator_vectors", first_fail.sig, first_fail.why, path, fails == 3});
        c.subchecks["generator_vectors"] = "FAIL " + first_fail.sig;
    } else {
        c.subchecks["generator_vectors"] = std::to_string(vs.vectors) + " vectors ok (" + std::to_string(vs.unimplemented) + " unimplemented tolerated)";
    }
}

} // namespace

#ifdef C01_LIBFUZZER
// coverage-guided variant of clause (a): the bytes are decoded structure-aware (table entry, word of that entry, second
// word, then every state field), the differential oracle is the same function
extern "C" int LLVMFuzzerTestOneInput(const uint8_t* data, size_t size) {
    static bool once = [] {
        if (!std::freopen("/dev/null", "w", stdout)) {
        }
        g_entry_done.assign(optable::entry_count(), 0);
        return true;
    }();
    (void)once;
    FuzzedDataProvider fdp(data, size);
    ICase c;
    int entry = fdp.ConsumeIntegralInRange<int>(-1, optable::entry_count() - 1);
    uint16_t pick = fdp.ConsumeIntegral<uint16_t>();
    if (entry >= 0) {
        const auto& ws = optable::words_of_entry(entry);
        c.opcode = ws[pick % ws.size()];
    } else
        c.opcode = pick;
    c.expansion = fdp.ConsumeIntegral<uint16_t>();
    c.irq_mask = fdp.ConsumeIntegral<uint8_t>() & 7;
    for (int f = 0; f < flat::NFIELDS && fdp.remaining_bytes() > 0; ++f) {
        int bits = flat::descs()[f].bits;
        uint64_t v = bits <= 8 ? fdp.ConsumeIntegral<uint8_t>() : (bits <= 16 ? fdp.ConsumeIntegral<uint16_t>() : fdp.ConsumeIntegral<uint64_t>());
        c.st[f] = flat::fit(f, v);
    }
    c.st[flat::F_prpage] = 0;
    c.st[flat::F_pc] = c.st[flat::F_pc] % 0x3FFF0;
    c.st[flat::F_mod0_unk_const] = 1;
    c.st[flat::F_bcn] = c.st[flat::F_bcn] % 5;
    c.st[flat::F_lp] = c.st[flat::F_bcn] != 0;
    vf::Stream s(vf::hash_bytes(c.st.v, sizeof c.st.v, c.opcode));
    c.pokes = icase::gen_pokes(s, c.st, c.opcode, c.expansion);
    vf::Result r = check(c);
    if (!r.ok) {
        std::fprintf(stderr, "VERIF-VIOLATION sig=%s\n%s\n%s", r.sig.c_str(), r.why.c_str(), icase::encode(c).c_str());
        __builtin_trap();
    }
    return 0;
}
#else
int main(int argc, char** argv) {
    vf::init(argc, argv, "C01");
    g_entry_done.assign(optable::entry_count(), 0);
    vf::Property<ICase> p;
    p.name = "differential";
    p.gen = genCase;
    p.check = check;
    p.encode = icase::encode;
    p.decode = icase::decode;
    p.minimise = icase::minimise;
    vf::run(p);
    if (vf::ctx().replay.empty()) {
        uint64_t covered = 0, lo = UINT64_MAX;
        for (auto n : g_entry_done) {
            covered += n > 0;
            lo = std::min(lo, n);
        }
        vf::klass("decode-table entries with >=1 completed differential case (this worker)", covered);
        vf::klass("decode-table entries total", g_entry_done.size());
    }
    run_generator_clause();
    return vf::finish();
}
#endif
