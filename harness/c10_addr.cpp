// C10 -- address registers step linearly, modulo or bit-reversed exactly as configured.
//  step   one instruction that post-modifies Rn (modr forms, loads/stores/ALU forms through [Rn]step, the arp-driven
//         modr_e/dmod forms which reach all eight step kinds): register afterwards and cell accessed vs the model
//  arstep the same for *every* form that addresses through ar/arp words (the annotated disassembler names the registers, steps
//         and modulo-disable flags; C20 ties that text to the interpreter): each named register afterwards vs the model
//  walk   sequences of +1 / -1 steps under modulo: the register stays inside [base, base+mod], wraps at the edges,
//         visits every cell once per lap, never changes the bits above the buffer alignment (both cmd modes)
#include <map>
#include <set>

#include "arrefs.h"
#include "icase.h"
#include "optable.h"
#include "pseudo_layout.h"
#include "ref_addrgen.h"
#include "teakra/disassembler.h"
#include "vf.h"

namespace {

using flat::State;

icase::Machine& sut() {
    static icase::Machine* m = new icase::Machine(ICASE_FNS(sut_));
    return *m;
}

struct FormInfo {
    bool memory;       // the form accesses the cell Rn points at
    bool arp;          // modr_?? forms driven by an arp word
    bool dmod_i, dmod_j;
    int fixed_step;    // -1: step operand; otherwise the step kind the mnemonic implies
    bool dmod;
};

// forms with exactly one (Rn, step) pair whose destination is not an r register
bool classify(const optable::Info& i, FormInfo& fi) {
    fi = FormInfo{false, false, false, false, -1, false};
    const std::string& f = i.form;
    if (f == "modr(Rn,StepValue#4)")
        return true;
    if (f == "modr_dmod(Rn,StepValue#4)") {
        fi.dmod = true;
        return true;
    }
    if (f == "modr_i2(Rn)" || f == "modr_i2_dmod(Rn)") {
        fi.fixed_step = raddr::Inc2;
        fi.dmod = f == "modr_i2_dmod(Rn)";
        return true;
    }
    if (f == "modr_d2(Rn)" || f == "modr_d2_dmod(Rn)") {
        fi.fixed_step = raddr::Dec2;
        fi.dmod = f == "modr_d2_dmod(Rn)";
        return true;
    }
    if (i.name == "modr_eemod" || i.name == "modr_edmod" || i.name == "modr_demod" || i.name == "modr_ddmod") {
        fi.arp = true;
        fi.dmod_i = i.name[5] == 'd';
        fi.dmod_j = i.name[6] == 'd';
        return true;
    }
    static const char* mem_forms[] = {"mov(Rn,StepValue#4,Bx)", "alm(AlmOp#16,Rn,StepValue#4,Ax)", "tstb(Rn,StepValue#4,Imm4)", "exp(Rn,StepValue#4)",
                                      "movs(Rn,StepValue#4,Ab)", "alb(AlbOp,Imm16,Rn,StepValue#4)", "mov(Register,Rn,StepValue#4)",
                                      "movr(Rn,StepValue#4,Ax)", "mul_y0(MulOp#8,Rn,StepValue#4,Ax)", "mov_r6_to(Rn,StepValue#4)"};
    for (const char* k : mem_forms)
        if (f == k) {
            fi.memory = true;
            return true;
        }
    return false;
}

const std::vector<std::vector<uint16_t>>& strata() {
    static std::vector<std::vector<uint16_t>> g = [] {
        std::map<std::string, std::vector<uint16_t>> m;
        for (uint32_t w = 0; w < 0x10000; ++w) {
            const optable::Info& i = optable::info((uint16_t)w);
            FormInfo fi;
            if (i.entry >= 0 && classify(i, fi))
                m[i.form].push_back((uint16_t)w);
        }
        std::vector<std::vector<uint16_t>> v;
        for (auto& kv : m)
            v.push_back(kv.second);
        return v;
    }();
    return g;
}

int rn_index(const optable::Info& i) {
    for (size_t k = 0; k < i.operands.size(); ++k)
        if (i.operands[k].type == "Rn")
            return (int)k;
    return -1;
}

struct Seed {
    uint64_t seed;
    uint32_t pick;
    uint16_t expansion;
};

icase::ICase build(const Seed& sd) {
    vf::Stream s(sd.seed);
    icase::ICase c;
    const auto& grp = strata()[(sd.pick >> 16) % strata().size()];
    c.opcode = grp[(sd.pick & 0xFFFF) % grp.size()];
    c.expansion = sd.expansion;
    c.st = icase::gen_state(s, 8);
    State& st = c.st;
    st[flat::F_rep] = 0;
    st[flat::F_bcn] = 0;
    st[flat::F_lp] = 0;
    st[flat::F_ie] = 0;
    st[flat::F_pc] = 0x100 + s.below(0x800);
    // mode mix: linear / modulo / bit-reversed / end-pointer, mod values with structure
    for (int u = 0; u < 8; ++u) {
        unsigned mode = (unsigned)s.below(8);
        st[flat::F_m + u] = mode == 1 || mode == 2 || mode == 3;
        st[flat::F_br + u] = mode == 4 || mode == 5 || (mode == 3 && s.chance(1, 4));
    }
    st[flat::F_epi] = s.chance(1, 6);
    st[flat::F_epj] = s.chance(1, 6);
    for (int f : {flat::F_stepi, flat::F_stepj, flat::F_stepi0, flat::F_stepj0})
        if (s.chance(1, 4))
            st[f] = 0; // configured zero steps
    for (int j = 0; j < 2; ++j) {
        unsigned mod;
        switch (s.below(5)) {
        case 0:
            mod = (1u << s.below(10)) - 1; // 2^k - 1
            break;
        case 1:
            mod = 1u << s.below(9); // 2^k
            break;
        case 2:
            mod = (unsigned)s.below(8);
            break;
        default:
            mod = (unsigned)s.below(512);
            break;
        }
        st[j ? flat::F_modj : flat::F_modi] = mod & 0x1FF;
    }
    // start addresses: inside the buffer (edges likely), or anywhere
    for (int u = 0; u < 8; ++u) {
        unsigned mod = (unsigned)(u >= 4 ? st[flat::F_modj] : st[flat::F_modi]);
        unsigned bits = 0;
        while ((1u << bits) < mod + 1)
            ++bits;
        uint16_t base = (uint16_t)(s.bits(16) & ~((1u << bits) - 1));
        switch (s.below(6)) {
        case 0:
            st[flat::F_r + u] = base;
            break;
        case 1:
            st[flat::F_r + u] = (uint16_t)(base + mod);
            break;
        case 2:
            st[flat::F_r + u] = (uint16_t)(base + (mod ? s.below(mod + 1) : 0));
            break;
        case 3:
            st[flat::F_r + u] = s.chance(1, 2) ? 0xFFFF : 0x0000;
            break;
        default:
            break; // whatever gen_state chose
        }
    }
    c.pokes = icase::gen_pokes(s, c.st, c.opcode, c.expansion);
    return c;
}

struct Expect {
    unsigned unit;
    raddr::Step step;
    bool dmod;
};

vf::Result check(const icase::ICase& c) {
    const optable::Info info = optable::decode(c.opcode, c.expansion);
    FormInfo fi;
    if (info.entry < 0 || !classify(info, fi)) {
        vf::note(0, false);
        return vf::Result::pass();
    }
    std::vector<Expect> ex;
    if (fi.arp) {
        unsigned idx = (unsigned)info.operands[0].value & 3, si = (unsigned)info.operands[1].value & 3, sj = (unsigned)info.operands[2].value & 3;
        ex.push_back({(unsigned)c.st[flat::F_arprni + idx], (raddr::Step)c.st[flat::F_arpstepi + si], fi.dmod_i});
        ex.push_back({(unsigned)c.st[flat::F_arprnj + idx] + 4, (raddr::Step)c.st[flat::F_arpstepj + sj], fi.dmod_j});
    } else {
        int k = rn_index(info);
        unsigned unit = (unsigned)info.operands[k].value & 7;
        raddr::Step st = fi.fixed_step >= 0 ? (raddr::Step)fi.fixed_step : (raddr::Step)(info.operands[k + 1].value & 3);
        ex.push_back({unit, st, fi.dmod});
    }
    // a store whose source is the stepped register itself, or r6 forms on r6, are fine: the register is read before the step
    std::string where = info.form + " op=" + vf::hex(c.opcode);
    // MMIO cell of this core
    for (auto& e : ex)
        if (fi.memory && raddr::access_address(c.st, e.unit, (uint16_t)c.st[flat::F_r + e.unit]) == 0xFFFF) {
            vf::note(0, false);
            return vf::Result::pass();
        }
    icase::IResult r = sut().exec(c);
    if (r.outcome != 0) {
        vf::klass("instruction did not complete (unimplemented / assert): no claim");
        vf::note(0, false);
        return vf::Result::pass();
    }
    bool changed = false, in_model = false;
    for (auto& e : ex) {
        uint16_t pre = (uint16_t)c.st[flat::F_r + e.unit], post = (uint16_t)r.after[flat::F_r + e.unit];
        std::optional<uint16_t> want = raddr::step(c.st, e.unit, pre, e.step, e.dmod);
        bool modulo = c.st[flat::F_m + e.unit] && !c.st[flat::F_br + e.unit] && !e.dmod;
        unsigned mod = (unsigned)(e.unit >= 4 ? c.st[flat::F_modj] : c.st[flat::F_modi]);
        std::string cfg = " [r" + std::to_string(e.unit) + "=" + vf::hex(pre) + " step " + std::to_string((int)e.step) + (e.dmod ? " dmod" : "") + " m=" +
                          vf::hex(c.st[flat::F_m + e.unit]) + " br=" + vf::hex(c.st[flat::F_br + e.unit]) + " mod=" + vf::hex(mod) + " cmd=" +
                          vf::hex(c.st[flat::F_cmd]) + " stp16=" + vf::hex(c.st[flat::F_stp16]) + " ep=" + vf::hex(c.st[flat::F_epi]) + vf::hex(c.st[flat::F_epj]) + "]";
        if (!want) {
            vf::klass("out of model (modulo with a step other than +-1, start outside the buffer, narrowed 16-bit step)");
            continue;
        }
        in_model = true;
        if (post != *want) {
            std::string kind = modulo ? "modulo" : (c.st[flat::F_br + e.unit] ? "bitrev-linear" : "linear");
            return vf::Result::fail("C10:step:" + kind + ":" + std::to_string((int)e.step) + (e.dmod ? ":dmod" : ""),
                                    "register after the step is " + vf::hex(post) + " but must be " + vf::hex(*want) + cfg + " for " + where);
        }
        if (post != pre)
            changed = true;
        // classes
        bool endptr = (e.unit == 3 && c.st[flat::F_epi]) || (e.unit == 7 && c.st[flat::F_epj]);
        if (endptr && !raddr::is_two(e.step))
            vf::klass("end-pointer zeroing");
        else if (modulo && (e.step == raddr::Inc || e.step == raddr::Dec)) {
            unsigned bits = 0;
            while ((1u << bits) < mod + 1)
                ++bits;
            unsigned off = pre & ((1u << bits) - 1);
            if (e.step == raddr::Inc && off == mod)
                vf::klass("modulo wrap at top");
            else if (e.step == raddr::Dec && off == 0)
                vf::klass("modulo wrap at bottom");
            else
                vf::klass("modulo step inside buffer");
            if (mod == 0)
                vf::klass("mod = 0");
            else if (((mod + 1) & mod) == 0)
                vf::klass("mod = 2^k - 1");
            else if ((mod & (mod - 1)) == 0)
                vf::klass("mod = 2^k");
        } else if (e.step == raddr::Zero)
            vf::klass("zero step");
        else if ((uint16_t)(pre + 1) == 0 || pre == 0)
            vf::klass("linear step at 0xFFFF / 0x0000");
        else if (raddr::is_two(e.step))
            vf::klass("+-2 step");
        else if (e.step == raddr::PlusS)
            vf::klass(post == pre ? "+s step with a configured step of 0" : "+s step");
    }
    if (fi.memory) {
        const Expect& e = ex[0];
        uint32_t want = 0x20000u + raddr::access_address(c.st, e.unit, (uint16_t)c.st[flat::F_r + e.unit]);
        bool any = false;
        for (auto& a : r.log) {
            if (a.addr < 0x20000)
                continue;
            any = true;
            if (a.addr != want)
                return vf::Result::fail(std::string("C10:address:") + (c.st[flat::F_br + e.unit] && !c.st[flat::F_m + e.unit] ? "bitrev" : "plain"),
                                        "access went to data address " + vf::hex(a.addr - 0x20000) + " instead of " + vf::hex(want - 0x20000) +
                                            " (pre-modified r" + std::to_string(e.unit) + "=" + vf::hex(c.st[flat::F_r + e.unit]) + ", br=" +
                                            vf::hex(c.st[flat::F_br + e.unit]) + " m=" + vf::hex(c.st[flat::F_m + e.unit]) + ") for " + where);
        }
        if (!any)
            return vf::Result::fail("C10:address:none", "no data access at all for " + where);
        if (c.st[flat::F_br + e.unit] && !c.st[flat::F_m + e.unit])
            vf::klass("bit-reversed access");
        in_model = true;
    }
    uint64_t h = vf::hash_bytes(c.st.v, sizeof c.st.v, c.opcode);
    vf::note(h, changed && in_model);
    if (changed && (h % 30000) == 0)
        vf::sample(where + " r=" + vf::hex(c.st[flat::F_r + ex[0].unit]) + " -> " + vf::hex(r.after[flat::F_r + ex[0].unit]) + " (unit " +
                   std::to_string(ex[0].unit) + ", step " + std::to_string((int)ex[0].step) + ", m=" + vf::hex(c.st[flat::F_m + ex[0].unit]) +
                   ", mod=" + vf::hex(ex[0].unit >= 4 ? c.st[flat::F_modj] : c.st[flat::F_modi]) + ")");
    return vf::Result::pass();
}

// ---- arstep: every ar/arp-addressed form ------------------------------------------------------------------------------------
const std::vector<std::vector<uint16_t>>& ar_strata() {
    static std::vector<std::vector<uint16_t>> g = [] {
        std::map<std::string, std::vector<uint16_t>> m;
        for (uint32_t w = 0; w < 0x10000; ++w) {
            const optable::Info& i = optable::info((uint16_t)w);
            if (i.entry >= 0 && arrefs::is_ar_form(i) && i.name.rfind("bkrep", 0) != 0) // bkrep forms: [rN] is a frame pointer
                m[i.form + "#" + std::to_string(i.entry)].push_back((uint16_t)w);
        }
        std::vector<std::vector<uint16_t>> v;
        for (auto& kv : m)
            v.push_back(kv.second);
        return v;
    }();
    return g;
}

int layout_word(const char* name) {
    for (size_t i = 0; i < layout::words().size(); ++i)
        if (layout::words()[i].name == std::string(name))
            return (int)i;
    return -1;
}

icase::ICase build_ar(const Seed& sd) {
    icase::ICase c = build(sd);
    const auto& grp = ar_strata()[(sd.pick >> 16) % ar_strata().size()];
    c.opcode = grp[(sd.pick & 0xFFFF) % grp.size()];
    vf::Stream s(sd.seed ^ 0x5151);
    for (int i = 0; i < 3; ++i)
        c.st[flat::F_ip + i] = 0; // nothing pending: a form that loads a status word may set ie, which must not be followed by an interrupt entry
    c.st[flat::F_ipv] = 0;
    c.pokes = icase::gen_pokes(s, c.st, c.opcode, c.expansion);
    return c;
}

vf::Result check_ar(const icase::ICase& c) {
    const optable::Info info = optable::decode(c.opcode, c.expansion);
    if (info.entry < 0 || !arrefs::is_ar_form(info) || info.name.rfind("bkrep", 0) == 0) {
        vf::note(0, false);
        return vf::Result::pass();
    }
    Teakra::Disassembler::ArArpSettings aa;
    static const int ar0 = layout_word("ar0"), arp0 = layout_word("arp0");
    for (int k = 0; k < 2; ++k)
        aa.ar[k] = layout::read(ar0 + k, c.st);
    for (int k = 0; k < 4; ++k)
        aa.arp[k] = layout::read(arp0 + k, c.st);
    auto tokens = Teakra::Disassembler::GetTokenList(c.opcode, c.expansion, aa);
    std::vector<arrefs::Ref> refs = arrefs::parse_refs(tokens);
    int count[8] = {0};
    for (auto& rf : refs)
        ++count[rf.reg];
    icase::IResult r = sut().exec(c);
    if (r.outcome != 0 || refs.empty()) {
        vf::klass(refs.empty() ? "arstep: no register named" : "arstep: instruction did not complete (unimplemented / assert): no claim");
        vf::note(0, false);
        return vf::Result::pass();
    }
    bool changed = false, in_model = false;
    std::string where = info.form + " op=" + vf::hex(c.opcode) + " text '" + Teakra::Disassembler::Do(c.opcode, c.expansion, aa) + "'";
    for (auto& rf : refs) {
        if (count[rf.reg] > 1 || !rf.has_step)
            continue;
        unsigned unit = (unsigned)rf.reg;
        bool dmod = arrefs::dmod_for(tokens, rf.reg);
        uint16_t pre = (uint16_t)c.st[flat::F_r + unit], post = (uint16_t)r.after[flat::F_r + unit];
        std::optional<uint16_t> want = raddr::step(c.st, unit, pre, (raddr::Step)rf.step, dmod);
        if (!want) {
            vf::klass("arstep: out of model (modulo with a step other than +-1, start outside the buffer, narrowed 16-bit step)");
            continue;
        }
        in_model = true;
        bool modulo = c.st[flat::F_m + unit] && !c.st[flat::F_br + unit] && !dmod;
        if (post != *want) {
            unsigned mod = (unsigned)(unit >= 4 ? c.st[flat::F_modj] : c.st[flat::F_modi]);
            return vf::Result::fail(std::string("C10:arstep:") + (modulo ? "modulo" : "linear") + ":" + info.name + ":" + std::to_string(rf.step) + (dmod ? ":dmod" : ""),
                                    "r" + std::to_string(unit) + " = " + vf::hex(pre) + " is " + vf::hex(post) + " after the step but must be " + vf::hex(*want) +
                                        " [step " + std::to_string(rf.step) + (dmod ? " dmod" : "") + " m=" + vf::hex(c.st[flat::F_m + unit]) + " br=" +
                                        vf::hex(c.st[flat::F_br + unit]) + " mod=" + vf::hex(mod) + " cmd=" + vf::hex(c.st[flat::F_cmd]) + " stp16=" +
                                        vf::hex(c.st[flat::F_stp16]) + "] for " + where);
        }
        if (post != pre)
            changed = true;
        vf::klass(std::string("arstep: ") + (modulo ? "modulo +-1" : (dmod && c.st[flat::F_m + unit] ? "modulo disabled by the instruction" : "linear")) +
                  (unit >= 4 ? " (j side)" : " (i side)"));
    }
    // the cells accessed: with no offset in play, every data access goes to the cell a named register points at *before* its step --
    // the register value itself, or its 16-bit bit reversal when bit reversal is on and modulo off for that register
    bool plain_offsets = true;
    for (auto& rf : refs)
        if (count[rf.reg] > 1 || (rf.has_step && rf.off != 0))
            plain_offsets = false;
    if (plain_offsets && info.name.rfind("modr", 0) != 0) {
        size_t idx = 0, nfetch = 1 + (info.expanded ? 1 : 0);
        for (auto& a : r.log) {
            if (idx++ < nfetch || a.addr < 0x20000)
                continue;
            uint16_t da = (uint16_t)(a.addr - 0x20000);
            bool ok = false, reversed = false;
            for (auto& rf : refs) {
                uint16_t pre = (uint16_t)c.st[flat::F_r + rf.reg];
                if (da == raddr::access_address(c.st, (unsigned)rf.reg, pre)) {
                    ok = true;
                    reversed = c.st[flat::F_br + rf.reg] && !c.st[flat::F_m + rf.reg];
                }
            }
            if (!ok) {
                std::string regs;
                for (auto& rf : refs)
                    regs += " r" + std::to_string(rf.reg) + "=" + vf::hex(c.st[flat::F_r + rf.reg]) + "(br=" + vf::hex(c.st[flat::F_br + rf.reg]) + ",m=" +
                            vf::hex(c.st[flat::F_m + rf.reg]) + ")";
                return vf::Result::fail("C10:araddress:" + info.name, std::string(a.write ? "write to" : "read of") + " data address " + vf::hex(da) +
                                                                          " which is not the (bit-reversed where configured) pre-step value of a named register:" + regs + " for " + where);
            }
            vf::klass(reversed ? "arstep: bit-reversed access through an ar/arp form" : "arstep: plain access through an ar/arp form");
            in_model = true;
        }
    }
    uint64_t h = vf::hash_bytes(c.st.v, sizeof c.st.v, c.opcode);
    vf::note(h, changed && in_model);
    if (changed && (h % 20000) == 0)
        vf::sample("arstep " + where);
    return vf::Result::pass();
}

// ---- rnstep: every form that names its address register(s) directly -------------------------------------------------------------
struct RnPair {
    unsigned unit;
    raddr::Step step;
};
// (register, step) pairs of a form: Rn / R0123 / R45 followed by a step operand, or the implicit r0 of the max/min forms
bool rn_pairs(const optable::Info& i, std::vector<RnPair>& out) {
    out.clear();
    if (i.entry < 0 || i.name == "norm") // norm steps its register only when it shifts: state dependent, left to C01
        return false;
    for (size_t k = 0; k + 1 < i.operands.size(); ++k) {
        const std::string& t = i.operands[k].type;
        if ((t == "Rn" || t == "R0123" || t == "R45") && i.operands[k + 1].type == "StepValue#4") {
            unsigned v = (unsigned)i.operands[k].value;
            unsigned unit = t == "Rn" ? (v & 7) : (t == "R0123" ? (v & 3) : 4 + (v & 1));
            out.push_back({unit, (raddr::Step)(i.operands[k + 1].value & 3)});
        }
    }
    // (max_ge / max_gt / min_le / min_lt step r0 as well: their register-only forms latch r0 into mixp and post-modify it)
    if (out.empty() && ((i.name.size() > 3 && i.name.compare(i.name.size() - 3, 3, "_r0") == 0) || i.name == "max_ge" || i.name == "max_gt" || i.name == "min_le" ||
                        i.name == "min_lt"))
        for (auto& o : i.operands)
            if (o.type == "StepValue#4")
                out.push_back({0, (raddr::Step)(o.value & 3)});
    return !out.empty();
}
const std::vector<std::vector<uint16_t>>& rn_strata() {
    static std::vector<std::vector<uint16_t>> g = [] {
        std::map<std::string, std::vector<uint16_t>> m;
        std::vector<RnPair> tmp;
        for (uint32_t w = 0; w < 0x10000; ++w) {
            const optable::Info& i = optable::info((uint16_t)w);
            if (rn_pairs(i, tmp))
                m[i.form].push_back((uint16_t)w);
        }
        std::vector<std::vector<uint16_t>> v;
        for (auto& kv : m)
            v.push_back(kv.second);
        return v;
    }();
    return g;
}
icase::ICase build_rn(const Seed& sd) {
    icase::ICase c = build(sd);
    const auto& grp = rn_strata()[(sd.pick >> 16) % rn_strata().size()];
    c.opcode = grp[(sd.pick & 0xFFFF) % grp.size()];
    vf::Stream s(sd.seed ^ 0x7272);
    for (int i = 0; i < 3; ++i)
        c.st[flat::F_ip + i] = 0;
    c.st[flat::F_ipv] = 0;
    c.pokes = icase::gen_pokes(s, c.st, c.opcode, c.expansion);
    return c;
}
vf::Result check_rn(const icase::ICase& c) {
    const optable::Info info = optable::decode(c.opcode, c.expansion);
    std::vector<RnPair> pairs;
    if (!rn_pairs(info, pairs)) {
        vf::note(0, false);
        return vf::Result::pass();
    }
    int count[8] = {0};
    for (auto& p : pairs)
        ++count[p.unit];
    // a destination that is itself an address register hides the step of that register
    int dest_unit = -1;
    if (!info.operands.empty() && info.operands.back().type == "Register") {
        long v = info.operands.back().value;
        dest_unit = v <= 5 ? (int)v : (v == 6 ? 7 : -1);
    }
    if (info.name == "mov_r6")
        dest_unit = 6; // r6 := [Rn]
    const bool dmod = info.name.size() > 5 && info.name.compare(info.name.size() - 5, 5, "_dmod") == 0;
    for (auto& p : pairs)
        if (raddr::access_address(c.st, p.unit, (uint16_t)c.st[flat::F_r + p.unit]) == 0xFFFF) { // the MMIO cell of this core
            vf::note(0, false);
            return vf::Result::pass();
        }
    icase::IResult r = sut().exec(c);
    if (r.outcome != 0) {
        vf::klass("rnstep: instruction did not complete (unimplemented / assert): no claim");
        vf::note(0, false);
        return vf::Result::pass();
    }
    std::string where = info.form + " op=" + vf::hex(c.opcode);
    bool changed = false, in_model = false;
    for (auto& p : pairs) {
        if (count[p.unit] > 1 || (int)p.unit == dest_unit)
            continue;
        uint16_t pre = (uint16_t)c.st[flat::F_r + p.unit], post = (uint16_t)r.after[flat::F_r + p.unit];
        std::optional<uint16_t> want = raddr::step(c.st, p.unit, pre, p.step, dmod);
        if (!want)
            continue;
        in_model = true;
        if (post != *want)
            return vf::Result::fail("C10:rnstep:" + info.name + ":" + std::to_string((int)p.step),
                                    "r" + std::to_string(p.unit) + " = " + vf::hex(pre) + " is " + vf::hex(post) + " after the step but must be " + vf::hex(*want) +
                                        " [step " + std::to_string((int)p.step) + " m=" + vf::hex(c.st[flat::F_m + p.unit]) + " br=" + vf::hex(c.st[flat::F_br + p.unit]) +
                                        " cmd=" + vf::hex(c.st[flat::F_cmd]) + "] for " + where);
        if (post != pre)
            changed = true;
    }
    // data cells accessed: the pre-step value of a named register, bit-reversed where configured (program-memory forms excluded)
    bool repeated = false;
    for (int u = 0; u < 8; ++u)
        if (count[u] > 1)
            repeated = true;
    if (!repeated && info.name != "movp" && info.name != "movd" && info.name.rfind("modr", 0) != 0) {
        size_t idx = 0, nfetch = 1 + (info.expanded ? 1 : 0);
        for (auto& a : r.log) {
            if (idx++ < nfetch || a.addr < 0x20000)
                continue;
            uint16_t da = (uint16_t)(a.addr - 0x20000);
            bool ok = false;
            for (auto& p : pairs)
                if (da == raddr::access_address(c.st, p.unit, (uint16_t)c.st[flat::F_r + p.unit]))
                    ok = true;
            if (!ok)
                return vf::Result::fail("C10:rnaddress:" + info.name, std::string(a.write ? "write to" : "read of") + " data address " + vf::hex(da) +
                                                                          " which is not the (bit-reversed where configured) pre-step value of a named register (r" +
                                                                          std::to_string(pairs[0].unit) + "=" + vf::hex(c.st[flat::F_r + pairs[0].unit]) + " br=" +
                                                                          vf::hex(c.st[flat::F_br + pairs[0].unit]) + " m=" + vf::hex(c.st[flat::F_m + pairs[0].unit]) +
                                                                          ") for " + where);
            in_model = true;
            vf::klass((c.st[flat::F_br + pairs[0].unit] && !c.st[flat::F_m + pairs[0].unit]) ? "rnstep: bit-reversed access" : "rnstep: plain access");
        }
    }
    uint64_t h = vf::hash_bytes(c.st.v, sizeof c.st.v, c.opcode);
    vf::note(h, (changed || in_model));
    return vf::Result::pass();
}

// ---- walk ----------------------------------------------------------------------------------------------------------
struct Walk {
    unsigned unit = 0, mod = 0, cmd = 0, start_off = 0;
    uint16_t base_bits = 0;
    unsigned pattern = 0; // 0: all +1, 1: all -1, 2: mixed (from seed)
    uint64_t seed = 0;
    unsigned steps = 0;
};
std::string enc_walk(const Walk& w) {
    return "walk " + vf::hex(w.unit) + " " + vf::hex(w.mod) + " " + vf::hex(w.cmd) + " " + vf::hex(w.start_off) + " " + vf::hex(w.base_bits) + " " +
           vf::hex(w.pattern) + " " + vf::hex(w.seed) + " " + vf::hex(w.steps) + "\n";
}
Walk dec_walk(const std::string& t) {
    Walk w;
    auto ls = vf::lines(t);
    auto v = vf::split_ws(ls.empty() ? "" : ls[0]);
    if (v.size() >= 9) {
        w.unit = (unsigned)vf::unhex(v[1]) & 7;
        w.mod = (unsigned)vf::unhex(v[2]) & 0x1FF;
        w.cmd = (unsigned)vf::unhex(v[3]) & 1;
        w.start_off = (unsigned)vf::unhex(v[4]);
        w.base_bits = (uint16_t)vf::unhex(v[5]);
        w.pattern = (unsigned)vf::unhex(v[6]);
        w.seed = vf::unhex(v[7]);
        w.steps = (unsigned)vf::unhex(v[8]);
    }
    return w;
}

uint16_t modr_word(unsigned unit, unsigned step) {
    static std::map<unsigned, uint16_t> cache;
    unsigned key = unit * 4 + step;
    auto it = cache.find(key);
    if (it != cache.end())
        return it->second;
    for (uint16_t w : optable::words_named("modr", "modr(Rn,StepValue#4)")) {
        const optable::Info& i = optable::info(w);
        if (i.operands[0].value == unit && i.operands[1].value == step)
            return cache[key] = w;
    }
    return 0;
}

vf::Result check_walk(const Walk& w) {
    unsigned bits = 0;
    while ((1u << bits) < w.mod + 1)
        ++bits;
    uint16_t mask = (uint16_t)((1u << bits) - 1);
    uint16_t base = w.base_bits & ~mask;
    uint16_t r = (uint16_t)(base + (w.mod ? w.start_off % (w.mod + 1) : 0));
    State st = flat::reset_state();
    st[flat::F_pc] = 0x200;
    st[flat::F_m + w.unit] = 1;
    st[flat::F_cmd] = w.cmd;
    st[w.unit >= 4 ? flat::F_modj : flat::F_modi] = w.mod;
    vf::Stream s(w.seed);
    std::set<uint16_t> visited;
    unsigned steps = std::min(w.steps, 2 * (w.mod + 1) + 3);
    for (unsigned k = 0; k < steps; ++k) {
        int dir = w.pattern == 0 ? 1 : (w.pattern == 1 ? -1 : (s.bits(1) ? 1 : -1));
        icase::ICase c;
        c.st = st;
        c.st[flat::F_r + w.unit] = r;
        c.opcode = modr_word(w.unit, dir > 0 ? 1 : 2);
        icase::IResult res = sut().exec(c);
        if (res.outcome != 0)
            return vf::Result::fail("C10:walk:outcome", "modr did not complete: " + res.what);
        uint16_t nr = (uint16_t)res.after[flat::F_r + w.unit];
        std::string ctx = " (unit " + std::to_string(w.unit) + ", mod " + vf::hex(w.mod) + ", cmd " + std::to_string(w.cmd) + ", step " + std::to_string(k) +
                          ": " + vf::hex(r) + (dir > 0 ? " +1" : " -1") + " -> " + vf::hex(nr) + ", buffer [" + vf::hex(base) + "," + vf::hex(base + w.mod) + "])";
        if ((nr & ~mask) != base)
            return vf::Result::fail("C10:walk:alignment", "bits above the buffer alignment changed" + ctx);
        if ((nr & mask) > w.mod)
            return vf::Result::fail("C10:walk:escape", "register left the buffer" + ctx);
        uint16_t want = dir > 0 ? ((r & mask) == w.mod ? base : r + 1) : ((r & mask) == 0 ? (uint16_t)(base | w.mod) : r - 1);
        if (nr != want)
            return vf::Result::fail(std::string("C10:walk:step:") + (dir > 0 ? "inc" : "dec"), "cyclic successor must be " + vf::hex(want) + ctx);
        if (w.pattern < 2 && k < w.mod + 1) {
            if (!visited.insert(nr).second)
                return vf::Result::fail("C10:walk:revisit", "a cell was visited twice within one lap" + ctx);
        }
        r = nr;
    }
    if (w.pattern < 2 && steps >= w.mod + 1 && visited.size() != w.mod + 1)
        return vf::Result::fail("C10:walk:lap", "one lap visited " + std::to_string(visited.size()) + " of " + std::to_string(w.mod + 1) + " cells");
    vf::klass(w.pattern == 2 ? "walk: mixed directions" : "walk: full lap");
    vf::note(vf::hash_str(enc_walk(w)), steps > 0);
    return vf::Result::pass();
}

} // namespace

int main(int argc, char** argv) {
    vf::init(argc, argv, "C10");
    vf::Property<icase::ICase> p;
    p.name = "addr_step";
    p.gen = [] {
        using namespace rc;
        return gen::map(gen::tuple(gen::resize(100, gen::arbitrary<uint64_t>()), gen::resize(100, gen::arbitrary<uint32_t>()), vf::u16b()),
                        [](std::tuple<uint64_t, uint32_t, uint16_t> t) { return build(Seed{std::get<0>(t), std::get<1>(t), std::get<2>(t)}); });
    };
    p.check = check;
    p.encode = icase::encode;
    p.decode = icase::decode;
    p.minimise = icase::minimise;
    p.share = 0.52;
    vf::run(p);

    vf::Property<icase::ICase> pa;
    pa.name = "ar_step";
    pa.gen = [] {
        using namespace rc;
        return gen::map(gen::tuple(gen::resize(100, gen::arbitrary<uint64_t>()), gen::resize(100, gen::arbitrary<uint32_t>()), vf::u16b()),
                        [](std::tuple<uint64_t, uint32_t, uint16_t> t) { return build_ar(Seed{std::get<0>(t), std::get<1>(t), std::get<2>(t)}); });
    };
    pa.check = check_ar;
    pa.encode = icase::encode;
    pa.decode = icase::decode;
    pa.minimise = icase::minimise;
    pa.share = 0.25;
    vf::run(pa);

    vf::Property<icase::ICase> pr;
    pr.name = "rn_step";
    pr.gen = [] {
        using namespace rc;
        return gen::map(gen::tuple(gen::resize(100, gen::arbitrary<uint64_t>()), gen::resize(100, gen::arbitrary<uint32_t>()), vf::u16b()),
                        [](std::tuple<uint64_t, uint32_t, uint16_t> t) { return build_rn(Seed{std::get<0>(t), std::get<1>(t), std::get<2>(t)}); });
    };
    pr.check = check_rn;
    pr.encode = icase::encode;
    pr.decode = icase::decode;
    pr.minimise = icase::minimise;
    pr.share = 0.2;
    vf::run(pr);

    vf::Property<Walk> q;
    q.name = "modulo_walk";
    const bool thorough = vf::ctx().tier == "thorough";
    q.gen = [thorough] {
        using namespace rc;
        auto modGen = gen::weightedOneOf<unsigned>({{3, gen::map(vf::range<unsigned>(0, 10), [](unsigned k) { return (1u << k) - 1; })},
                                                    {2, gen::map(vf::range<unsigned>(0, 9), [](unsigned k) { return 1u << k; })},
                                                    {3, vf::range<unsigned>(0, 16)},
                                                    {thorough ? 6 : 2, vf::range<unsigned>(0, 512)}});
        return gen::map(gen::tuple(vf::range<unsigned>(0, 8), modGen, vf::range<unsigned>(0, 2), vf::range<unsigned>(0, 512), vf::u16b(),
                                   gen::weightedElement<unsigned>({{2, 0}, {2, 1}, {1, 2}}), gen::resize(100, gen::arbitrary<uint64_t>())),
                        [](std::tuple<unsigned, unsigned, unsigned, unsigned, uint16_t, unsigned, uint64_t> t) {
                            Walk w;
                            w.unit = std::get<0>(t);
                            w.mod = std::get<1>(t) & 0x1FF;
                            w.cmd = std::get<2>(t);
                            w.start_off = std::get<3>(t);
                            w.base_bits = std::get<4>(t);
                            w.pattern = std::get<5>(t);
                            w.seed = std::get<6>(t);
                            w.steps = 2 * (w.mod + 1) + 3;
                            return w;
                        });
    };
    q.check = check_walk;
    q.encode = enc_walk;
    q.decode = dec_walk;
    q.share = thorough ? 0.01 : 0.02;
    vf::run(q);
    // complete enumeration of the modulo configurations: all 512 mod values x both cmd modes x 8 registers x both
    // directions, one full lap + 3 steps each (thorough: everything; quick: the mod values with mod % 8 == seed % 8)
    if (vf::ctx().replay.empty()) {
        vf::Ctx& c = vf::ctx();
        uint64_t walks = 0;
        for (unsigned mod = 0; mod < 512; ++mod) {
            if (!thorough && (mod % 8) != (c.seed % 8))
                continue;
            for (unsigned cmd = 0; cmd < 2; ++cmd)
                for (unsigned unit = 0; unit < 8; ++unit)
                    for (unsigned dir = 0; dir < 2; ++dir) {
                        unsigned idx = ((mod * 2 + cmd) * 8 + unit) * 2 + dir;
                        if ((int)(idx % (unsigned)c.workers) != c.worker)
                            continue;
                        Walk w;
                        w.unit = unit;
                        w.mod = mod;
                        w.cmd = cmd;
                        w.pattern = dir;
                        w.start_off = (unsigned)vf::mix64(idx + c.seed) % (mod + 1);
                        w.base_bits = (uint16_t)vf::mix64(idx * 31 + c.seed);
                        w.seed = idx;
                        w.steps = 2 * (mod + 1) + 3;
                        c.current_prop = "modulo_walk";
                        c.current = [&] { return enc_walk(w); };
                        vf::enum_result("modulo_walk", check_walk(w), [&] { return enc_walk(w); }, [&] { return check_walk(w); });
                        ++walks;
                    }
        }
        c.current = nullptr;
        vf::klass("enumerated modulo walks (mod x cmd x unit x direction)", walks);
        if (thorough)
            c.exhaustive["all 512 mod values x cmd x unit x direction (this worker's share)"] = true;
    }
    return vf::finish();
}
