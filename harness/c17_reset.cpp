// C17 -- behaviour depends only on the call history; Reset() equals a fresh machine.
// Differential between real Teakra instances whose heap memory was pre-filled with different byte patterns
// (a replaced global operator new fills every allocation before the constructors run):
//   fresh   : the same API history Q on two instances straight after construction        -> identical traces
//   reset   : construct ; P ; Reset ; Q   vs   construct ; Reset ; Q                     -> identical traces of Q
// A trace is, after every call of Q: all registers incl. banks, memory digest, masked read-back of every modelled
// MMIO register, host API views, and the ordered callback log.
#include <new>
#include <set>

#include "icase.h"
#include "optable.h"
#include "sysinst.h"
#include "vf.h"

// ---- heap fill ------------------------------------------------------------------------------------------------------
static unsigned char g_fill = 0x00;
static bool g_fill_on = false;
void* operator new(std::size_t n) {
    void* p = std::malloc(n ? n : 1);
    if (!p)
        throw std::bad_alloc();
    if (g_fill_on)
        std::memset(p, g_fill, n);
    return p;
}
void* operator new[](std::size_t n) {
    return operator new(n);
}
void operator delete(void* p) noexcept {
    std::free(p);
}
void operator delete[](void* p) noexcept {
    std::free(p);
}
void operator delete(void* p, std::size_t) noexcept {
    std::free(p);
}
void operator delete[](void* p, std::size_t) noexcept {
    std::free(p);
}

namespace {

using sysinst::Sys;

enum Kind : int { ProgW, DataW, MmioW, Send, Recv, SemSet, SemClear, SemMask, Poke, RunProg, Ahbm, Audio, TimerProg, DmaExt, LoadRaw, NKIND };
const char* kKindName[] = {"progw", "dataw", "mmiow", "send", "recv", "semset", "semclear", "semmask", "poke", "run", "ahbm", "audio", "timerprog", "dmaext", "loadraw"};
struct Op {
    int kind = 0;
    uint64_t a = 0, b = 0, c = 0;
};
struct Case {
    int mode = 0; // 0 fresh, 1 reset
    unsigned fill_a = 0, fill_b = 0xFF;
    bool user_memory = false; // both instances run on a caller-supplied (zeroed) buffer instead of memory the emulator allocates
    std::vector<Op> p, q;
};

uint16_t W(const std::string& form, const std::vector<long>& v) {
    int w = optable::find_word(form, v);
    if (w < 0)
        vf::add_note("inconclusive: instruction form not found: " + form);
    return (uint16_t)(w < 0 ? 0 : w);
}

// targeted MMIO writes: (offset, value) from two generated numbers
void mmio_target(uint64_t sel, uint64_t val, uint16_t& off, uint16_t& v) {
    v = (uint16_t)val;
    switch (sel % 40) {
    case 0:
        off = 0x204; // ICU trigger
        break;
    case 1:
        off = 0x202;
        break;
    case 2:
    case 3:
    case 4:
        off = 0x206 + 2 * (uint16_t)(sel / 40 % 3);
        break;
    case 5:
        off = 0x20C;
        break;
    case 6:
    case 7:
        off = 0x212 + 4 * (uint16_t)(sel / 40 % 16);
        break;
    case 8:
    case 9:
        off = 0x214 + 4 * (uint16_t)(sel / 40 % 16);
        break;
    case 10:
    case 11:
        off = 0x24 + 0x10 * (uint16_t)(sel / 40 % 2); // timer start low, small
        v = (uint16_t)(val % 64);
        break;
    case 12:
        off = 0x26 + 0x10 * (uint16_t)(sel / 40 % 2);
        v = (uint16_t)(val % 2);
        break;
    case 13:
    case 14:
    case 15:
        off = 0x20 + 0x10 * (uint16_t)(sel / 40 % 2); // timer config: TS = 0, CM 0..3, PC, MU, RES + unmodelled bits
        v = (uint16_t)(((val & 3) << 2) | (val & 0x0700) | (val & 0xF8E0 & (sel >> 8)));
        break;
    case 16: // event-count tick, or the counter mirror cells themselves (directly writable; with MU = 0 nothing refreshes them)
        off = (uint16_t[]){0x22, 0x28, 0x2A}[sel / 80 % 3] + 0x10 * (uint16_t)(sel / 40 % 2);
        break;
    case 17:
        off = (sel / 40 % 2) ? 0x18C : 0x184;
        break;
    case 18:
        off = 0x1BE;
        v = (uint16_t)(val % 8);
        break;
    case 19:
    case 20:
    case 21:
        off = 0x1C0 + 2 * (uint16_t)(sel / 40 % 15); // DMA channel window (not the start register)
        if (off == 0x1C2 || off == 0x1C6)
            v &= 1;
        break;
    case 22:
    case 23:
        off = 0x0E2 + 6 * (uint16_t)(sel / 40 % 3) + 2 * (uint16_t)(sel / 400 % 3);
        break;
    case 24:
    case 25:
        off = 0x0C0 + 4 * (uint16_t)(sel / 40 % 3);
        break;
    case 26:
        off = 0x0CC;
        break;
    case 27:
        off = 0x0CE;
        break;
    case 28:
        off = 0x0D0;
        break;
    case 29:
    case 30:
        off = 0x0D4;
        v = (uint16_t)(val & 0x3104);
        break;
    case 31:
        off = 0x2BE + 0x80 * (uint16_t)(sel / 40 % 2);
        v = (uint16_t)(val & 1);
        break;
    case 32:
    case 33:
        off = 0x2C6 + 0x80 * (uint16_t)(sel / 40 % 2);
        break;
    case 34:
        off = 0x2CA + 0x80 * (uint16_t)(sel / 40 % 2);
        break;
    case 35:
        off = 0x10E + 2 * (uint16_t)(sel / 40 % 3); // x/y/z page
        v = (uint16_t)(val & 1);
        break;
    case 36:
        off = 0x114 + 2 * (uint16_t)(sel / 40 % 2);
        break;
    case 37:
        off = 0x11A;
        v = (uint16_t)(val & 0x57);
        break;
    case 38:
        off = 0x11E;
        if ((sel >> 9) & 1) // a handful of bases, so that a history writes the same base before and after a Reset
            v = (uint16_t[]){0x4000, 0x2000, 0xC000, 0x8000}[(sel >> 10) % 4];
        break;
    default:
        off = 0x2A2 + 0x80 * (uint16_t)(sel / 40 % 2);
        break;
    }
    // a quarter of the writes to the plain configuration registers use one of four values per register: the same value written
    // before and after a Reset (a binding that remembers what it saw last would drop the second write)
    if (((sel >> 13) & 3) == 0 && (off == 0x10E || off == 0x110 || off == 0x112 || off == 0x114 || off == 0x116 || off == 0x0CE || off == 0x20C ||
                                     (off >= 0x206 && off <= 0x20A) || off == 0x2A2 || off == 0x322 || off == 0x184 || off == 0x18C))
        v = (uint16_t)((off >= 0x10E && off <= 0x112) ? (sel >> 15) & 1 : (uint16_t[]){0x0001, 0x0400, 0x4000, 0xFFFF}[(sel >> 15) % 4]);
}

// small programs that dirty interpreter-side state (latches, idle flag, banks, loop frames)
std::vector<uint16_t> program(unsigned kind, uint16_t v) {
    switch (kind % 8) {
    case 0:
        return {0x0000, 0x0000, 0x0000, 0x0000};
    case 7: // mov ##v, a0h ; cbs a0h, ge: the codebook search keeps a hidden operand (the high half of its last product)
        return {W("mov(Imm16,Register)", {-1, 28}), v, W("cbs(Axh,CbsCondValue)", {0, 0}), 0x0000, 0x0000, 0x0000};
    case 1: // eint ; brr -1 (idle)
        return {W("eint()", {}), W("brr(RelAddr7,CondValue)", {0x7F, 0})};
    case 2:
        return {W("cntx_s()", {}), 0x0000, W("brr(RelAddr7,CondValue)", {0x7F, 0})};
    case 3:
        return {W("banke(BankFlags)", {(long)(v & 63)}), W("bankr()", {}), 0x0000, 0x0000};
    case 4: // bkrep #v { nop nop } (leaves a frame active when cut short)
        return {W("bkrep(Imm8,Address16)", {(long)(v & 0xFF), -1}), 0x0003, 0x0000, 0x0000, 0x0000};
    case 5: // mov #v, mod3 : interrupt enables, context configuration
        return {W("mov(Imm16,SttMod)", {-1, 7}), v, 0x0000, W("brr(RelAddr7,CondValue)", {0x7F, 0})};
    default: // rep #v ; nop
        return {W("rep(Imm8)", {(long)(v & 0xFF)}), 0x0000, 0x0000};
    }
}

std::string apply(Sys& s, const Op& op) {
    sysinst::Outcome o;
    switch (op.kind) {
    case ProgW:
        o = s.guarded([&] { s.t->ProgramWrite((uint32_t)(op.a % 0x40000), (uint16_t)op.b); });
        break;
    case DataW:
        o = s.guarded([&] { s.t->DataWrite((uint16_t)op.a, (uint16_t)op.b, true); });
        break;
    case MmioW: {
        uint16_t off, v;
        mmio_target(op.a, op.b, off, v);
        o = s.guarded([&] { s.t->MMIOWrite(off, v); });
        break;
    }
    case Send:
        o = s.guarded([&] { s.t->SendData((uint8_t)(op.a % 3), (uint16_t)op.b); });
        break;
    case Recv:
        o = s.guarded([&] { s.log.push_back({'v', (uint32_t)(op.a % 3), s.t->RecvData((uint8_t)(op.a % 3)), 0}); });
        break;
    case SemSet:
        o = s.guarded([&] { s.t->SetSemaphore((uint16_t)op.b); });
        break;
    case SemClear:
        o = s.guarded([&] { s.t->ClearSemaphore((uint16_t)op.b); });
        break;
    case SemMask:
        o = s.guarded([&] { s.t->MaskSemaphore((uint16_t)op.b); });
        break;
    case Poke: {
        vf::Stream st(op.a);
        flat::State f = icase::gen_state(st, 8);
        f[flat::F_pc] = st.below(0x100);
        f[flat::F_rep] = 0;
        s.set_regs(f);
        break;
    }
    case RunProg: {
        auto code = program((unsigned)op.a, (uint16_t)op.b);
        o = s.guarded([&] {
            for (size_t i = 0; i < code.size(); ++i)
                s.t->ProgramWrite((uint32_t)i, code[i]);
            flat::State f = s.regs();
            f[flat::F_pc] = 0;
            f[flat::F_prpage] = 0;
            s.set_regs(f);
            s.t->Run((unsigned)(1 + op.c % 200));
        });
        break;
    }
    case Audio: // an audio port programmed the way a driver does it: short period, some words, enable, then let the idle loop run
        o = s.guarded([&] {
            uint16_t port = (uint16_t)(0x80 * (op.a & 1));
            s.t->MMIOWrite(0x2A2 + port, (uint16_t)(1 + (op.a >> 1) % 40));
            for (unsigned k = 0; k < op.b % 5; ++k)
                s.t->MMIOWrite(0x2C6 + port, (uint16_t)(0x4000 + op.b + k));
            s.t->MMIOWrite(0x2BE + port, (uint16_t)((op.a >> 8) % 4 != 0)); // mostly enabled
            auto code = program(1, 0);
            for (size_t i = 0; i < code.size(); ++i)
                s.t->ProgramWrite((uint32_t)i, code[i]);
            flat::State f = s.regs();
            f[flat::F_pc] = 0;
            f[flat::F_prpage] = 0;
            s.set_regs(f);
            // the frame period is 4096 cycles: run a short stretch (leaves the frame clock mid-period) or just about one period
            // (shows when the next frame arrives); the idle loop makes the long stretch cheap
            s.t->Run((unsigned)((op.c % 4 == 0) ? 3900 + (op.c / 4) % 400 : 1 + op.c % 200));
        });
        break;
    case TimerProg: // a timer programmed the way a driver does it: start value, configuration with restart, optionally MU off again
        o = s.guarded([&] {
            uint16_t t = (uint16_t)(0x10 * (op.a & 1));
            s.t->MMIOWrite(0x24 + t, (uint16_t)(op.b % 300));
            s.t->MMIOWrite(0x26 + t, (uint16_t)((op.a >> 1) % 8 == 0));
            uint16_t cfg = (uint16_t)(0x0400 | (((op.a >> 4) & 3) << 2) | (((op.a >> 6) & 1) << 9));
            s.t->MMIOWrite(0x20 + t, cfg);
            if ((op.a >> 7) & 1)
                s.t->MMIOWrite(0x20 + t, (uint16_t)(cfg & ~0x0600)); // same mode, MU off, no restart
            s.t->Run((unsigned)(op.c % 64));
        });
        break;
    case DmaExt: // a small external -> DSP transfer on DMA channel k through whichever AHBM channel it is connected to; the connection
                 // and the unit size are (re)programmed only when the option bits say so
        o = s.guarded([&] {
            unsigned k = (unsigned)(op.a % 8), ac = (unsigned)((op.a >> 3) % 3);
            if ((op.a >> 5) & 1)
                s.t->MMIOWrite((uint16_t)(0x0E6 + 6 * ac), (uint16_t)(1u << k)); // connect DMA channel k to AHBM channel ac
            if ((op.a >> 6) & 1)
                s.t->MMIOWrite((uint16_t)(0x0E2 + 6 * ac), (uint16_t)(((op.a >> 7) % 3) << 4)); // unit size 8 / 16 / 32 bits
            s.t->MMIOWrite(0x1BE, (uint16_t)k);
            s.t->MMIOWrite(0x1C0, (uint16_t)(0x100 + 4 * (op.b % 16))); // source (external) low
            s.t->MMIOWrite(0x1C2, 0x2000);                              // source high
            s.t->MMIOWrite(0x1C4, (uint16_t)(0x6000 + (op.b % 64)));    // destination (DSP data)
            s.t->MMIOWrite(0x1C6, 0);
            s.t->MMIOWrite(0x1C8, (uint16_t)(1 + op.c % 4));
            s.t->MMIOWrite(0x1CA, 1);
            s.t->MMIOWrite(0x1CC, 1);
            s.t->MMIOWrite(0x1CE, 2);
            s.t->MMIOWrite(0x1D0, 1);
            for (uint16_t r = 0x1D2; r <= 0x1D8; r += 2)
                s.t->MMIOWrite(r, 0);
            s.t->MMIOWrite(0x1DA, 0x0007); // source space 7 (AHBM), destination space 0
            s.t->MMIOWrite(0x1DE, 0x40C0);
        });
        break;
    case LoadRaw: // a host that (optionally) resets the emulator and then loads bytes through the memory pointer it fetched once
        o = s.guarded([&] {
            if (op.c & 1)
                s.t->Reset();
            for (unsigned k = 0; k < 1 + (op.c >> 1) % 8; ++k)
                s.retained[(op.a + k) % Teakra::DspMemorySize] = (uint8_t)(op.b + 0x11 * k);
        });
        break;
    case Ahbm:
        o = s.guarded([&] {
            uint32_t addr = (uint32_t)(op.a & 0xFFFF) * ((op.c & 2) ? 4 : 2);
            switch (op.c & 3) {
            case 0:
                s.t->AHBMWrite16(addr, (uint16_t)op.b);
                break;
            case 1:
                s.log.push_back({'v', 16, s.t->AHBMRead16(addr), 0});
                break;
            case 2:
                s.t->AHBMWrite32(addr, (uint32_t)(op.b * 65537u));
                break;
            default:
                s.log.push_back({'v', 32, s.t->AHBMRead32(addr), 0});
                break;
            }
        });
        break;
    }
    return o.kind ? ("outcome " + std::to_string(o.kind) + " " + o.what) : std::string();
}

std::string encode(const Case& c) {
    std::string s = "mode " + vf::hex(c.mode) + " " + vf::hex(c.fill_a) + " " + vf::hex(c.fill_b) + " " + vf::hex(c.user_memory) + "\n";
    for (auto& op : c.p)
        s += std::string("P ") + kKindName[op.kind] + " " + vf::hex(op.a) + " " + vf::hex(op.b) + " " + vf::hex(op.c) + "\n";
    for (auto& op : c.q)
        s += std::string("Q ") + kKindName[op.kind] + " " + vf::hex(op.a) + " " + vf::hex(op.b) + " " + vf::hex(op.c) + "\n";
    return s;
}
Case decode(const std::string& text) {
    Case c;
    for (auto& l : vf::lines(text)) {
        auto t = vf::split_ws(l);
        if (t.size() >= 4 && t[0] == "mode") {
            c.mode = (int)vf::unhex(t[1]);
            c.fill_a = (unsigned)vf::unhex(t[2]);
            c.fill_b = (unsigned)vf::unhex(t[3]);
            c.user_memory = t.size() >= 5 && vf::unhex(t[4]) != 0;
        } else if (t.size() >= 5 && (t[0] == "P" || t[0] == "Q")) {
            Op op;
            for (int k = 0; k < NKIND; ++k)
                if (t[1] == kKindName[k])
                    op.kind = k;
            op.a = vf::unhex(t[2]);
            op.b = vf::unhex(t[3]);
            op.c = vf::unhex(t[4]);
            (t[0] == "P" ? c.p : c.q).push_back(op);
        }
    }
    return c;
}

std::unique_ptr<Sys> make(unsigned fill, bool user_memory) {
    g_fill = (unsigned char)fill;
    g_fill_on = true;
    auto s = std::make_unique<Sys>(!user_memory);
    g_fill_on = false;
    return s;
}

std::string component_of(const std::string& name) {
    if (name.rfind("reg.", 0) == 0)
        return "registers";
    if (name == "memory-digest")
        return "memory";
    if (name.rfind("mmio.", 0) == 0) {
        unsigned off = (unsigned)vf::unhex(name.substr(5));
        if (off < 0x40)
            return "timers";
        if (off < 0x0E0)
            return "apbp";
        if (off < 0x100)
            return "ahbm";
        if (off < 0x180)
            return "miu";
        if (off < 0x200)
            return "dma";
        if (off < 0x2A0)
            return "icu";
        return "btdmp";
    }
    return "hostviews";
}

vf::Result check(const Case& c) {
    auto a = make(c.fill_a, c.user_memory), b = make(c.fill_b, c.user_memory);
    if (c.user_memory)
        vf::klass("caller-supplied DSP memory");
    std::string what = c.mode ? "construct;P;Reset;Q vs construct;Reset;Q" : "same history straight after construction";
    if (c.mode == 1) {
        for (auto& op : c.p)
            apply(*a, op);
        a->t->Reset();
        b->t->Reset();
        a->ext.bytes.clear(); // the external world is not part of the emulator: both sides continue with a fresh one
        b->ext.bytes.clear();
    }
    size_t la = a->log.size(), lb = b->log.size();
    std::vector<std::string> names;
    {
        std::vector<uint64_t> oa = a->observe(&names), ob = b->observe();
        if (oa != ob) {
            std::string d = sysinst::first_difference(oa, ob, names);
            std::string first = d.substr(0, d.find(':'));
            return vf::Result::fail(std::string("C17:") + (c.mode ? "reset:" : "fresh:") + component_of(first) + ":" + first,
                                    "observations differ before any further call (" + what + "): " + d);
        }
    }
    // registers no peripheral models: their read-back is part of "straight after construction" too (plain storage must not start
    // out as whatever the heap held)
    // (fresh mode only: a history before the Reset can reach such a cell after all -- move the MMIO window to the top of the data
    //  space and let an interrupt entry push onto a stack that wraps into it -- and plain storage is not part of Reset, see section 9)
    for (uint16_t off : {0x100, 0x102, 0x01E, 0x02C, 0x02E, 0x03C, 0x03E, 0x20E, 0x210, 0x300, 0x5FE, 0x7FE}) {
        if (c.mode != 0)
            break;
        uint16_t va = a->t->MMIORead(off), vb = b->t->MMIORead(off);
        if (va != vb)
            return vf::Result::fail(std::string("C17:") + (c.mode ? "reset:" : "fresh:") + "plain-cell:" + vf::hex(off),
                                    "never-written MMIO cell " + vf::hex(off) + " reads " + vf::hex(va) + " on one instance and " + vf::hex(vb) + " on the other (" + what + ")");
    }
    std::set<std::string> dirtied;
    for (size_t i = 0; i < c.q.size(); ++i) {
        std::string ra = apply(*a, c.q[i]), rb = apply(*b, c.q[i]);
        std::string opname = kKindName[c.q[i].kind];
        if (ra != rb)
            return vf::Result::fail(std::string("C17:") + (c.mode ? "reset:" : "fresh:") + "outcome:" + opname,
                                    "call " + std::to_string(i) + " (" + opname + ") ended differently: '" + ra + "' vs '" + rb + "' (" + what + ")");
        std::vector<uint64_t> oa = a->observe(), ob = b->observe();
        if (oa != ob) {
            std::string d = sysinst::first_difference(oa, ob, names);
            std::string first = d.substr(0, d.find(':'));
            return vf::Result::fail(std::string("C17:") + (c.mode ? "reset:" : "fresh:") + component_of(first) + ":" + first,
                                    "after call " + std::to_string(i) + " (" + opname + ") observations differ (" + what + "): " + d);
        }
        if (a->log.size() - la != b->log.size() - lb ||
            !std::equal(a->log.begin() + la, a->log.end(), b->log.begin() + lb))
            return vf::Result::fail(std::string("C17:") + (c.mode ? "reset:" : "fresh:") + "callbacks:" + opname,
                                    "after call " + std::to_string(i) + " (" + opname + ") the callback logs differ (" + what + "): " +
                                        std::to_string(a->log.size() - la) + " vs " + std::to_string(b->log.size() - lb) + " events");
    }
    // classes: which components did P dirty
    int kinds = 0;
    unsigned seen = 0;
    for (auto& op : c.p)
        seen |= 1u << op.kind;
    for (int k = 0; k < NKIND; ++k)
        if (seen & (1u << k)) {
            ++kinds;
            vf::klass(std::string("P contains ") + kKindName[k]);
        }
    vf::klass(c.mode ? "reset-equals-fresh case" : "fresh-vs-fresh case");
    bool nontrivial = c.mode ? (kinds >= 3 && !c.q.empty()) : !c.q.empty();
    vf::note(vf::hash_str(encode(c)), nontrivial);
    if (nontrivial && c.p.size() + c.q.size() <= 8)
        vf::sample(encode(c));
    return vf::Result::pass();
}

rc::Gen<Op> genOp() {
    using namespace rc;
    return gen::map(gen::tuple(gen::weightedElement<int>({{2, ProgW}, {2, DataW}, {10, MmioW}, {2, Send}, {1, Recv}, {1, SemSet}, {1, SemClear}, {1, SemMask},
                                                          {2, Poke}, {4, RunProg}, {1, Ahbm}, {2, Audio}, {2, TimerProg}, {2, DmaExt}, {3, LoadRaw}}),
                               gen::resize(100, gen::arbitrary<uint64_t>()), vf::u16b(), vf::range<unsigned>(0, 4096)),
                    [](std::tuple<int, uint64_t, uint16_t, unsigned> t) {
                        Op op;
                        op.kind = std::get<0>(t);
                        op.a = std::get<1>(t);
                        op.b = std::get<2>(t);
                        op.c = std::get<3>(t);
                        return op;
                    });
}

} // namespace

int main(int argc, char** argv) {
    vf::init(argc, argv, "C17");
    vf::Property<Case> p;
    p.name = "history_determinism";
    p.gen = [] {
        using namespace rc;
        auto fills = gen::element<unsigned>(0x00, 0xFF, 0xA5, 0x5A, 0x01, 0x80);
        return gen::map(gen::tuple(gen::weightedElement<int>({{1, 0}, {2, 1}}), fills, fills, gen::container<std::vector<Op>>(genOp()),
                                   gen::container<std::vector<Op>>(genOp()), vf::range<unsigned>(0, 4)),
                        [](std::tuple<int, unsigned, unsigned, std::vector<Op>, std::vector<Op>, unsigned> t) {
                            Case c;
                            c.mode = std::get<0>(t);
                            c.fill_a = std::get<1>(t);
                            c.fill_b = std::get<2>(t);
                            if (c.fill_a == c.fill_b)
                                c.fill_b ^= 0xFF;
                            c.p = std::get<3>(t);
                            c.q = std::get<4>(t);
                            c.user_memory = std::get<5>(t) == 0;
                            if (c.mode == 0)
                                c.p.clear();
                            return c;
                        });
    };
    p.check = check;
    p.shrink_budget = 120; // two or three instance constructions per evaluation
    p.encode = encode;
    p.decode = decode;
    p.max_size = 40;
    vf::run(p);
    return vf::finish();
}
