// C07 -- interrupts are delivered exactly once, in priority order, never spuriously.
// Histories of trigger / acknowledge / route / mask / enable operations and instruction steps over the 16 IRQ sources and
// the four core lines, on a real Teakra instance whose memory is a nop sled (0x0000 = nop everywhere). Sources: software
// trigger (0x204), both timers, host SendData (APBP, IRQ 14), a DMA start (IRQ 15), the audio port running empty
// (IRQ 11). An independent model of the controller and of the core's interrupt logic predicts, for every single
// instruction step, the complete register state (pc, sp, ie, ip/ipv, and -- for context-switching entries -- every
// banked field), the stack words and the controller's pending register; both directions are checked: every predicted
// entry happens at exactly that boundary, and no entry happens that the model does not predict.
#include <map>

#include "optable.h"
#include "pseudo_layout.h"
#include "ref_context.h"
#include "teakra/disassembler.h"
#include "sysinst.h"
#include "vf.h"

namespace {

using flat::State;
using sysinst::Sys;

enum Kind : int { Step, Trigger, Ack, SetEnable, SetVEnable, SetVector, PokeCore, Exec, TimerStart, HostSend, DmaStart, Audio, IdleRun, NKIND };
const char* kKindName[] = {"step", "trigger", "ack", "enable", "venable", "vector", "poke", "exec", "timer", "hostsend", "dmastart", "audio", "idlerun"};
struct Op {
    int kind = Step;
    uint32_t a = 0, b = 0, c = 0;
};
using Case = std::vector<Op>;

Sys& sys() {
    static Sys* s = new Sys;
    return *s;
}
uint16_t W(const std::string& form, const std::vector<long>& v) {
    static std::map<std::string, int> cache;
    std::string key = form;
    for (long x : v)
        key += "," + std::to_string(x);
    auto it = cache.find(key);
    if (it == cache.end()) {
        it = cache.emplace(key, optable::find_word(form, v)).first;
        if (it->second < 0)
            vf::add_note("inconclusive: instruction form not found: " + key);
    }
    return (uint16_t)(it->second < 0 ? 0 : it->second);
}

// status / configuration words a program writes to change its interrupt enables: mov #imm16, W
const char* kStWord[] = {"st0", "st2", "mod3", "stt2"};
uint16_t mov_imm_to(const char* word) {
    static std::map<std::string, uint16_t> cache;
    auto it = cache.find(word);
    if (it != cache.end())
        return it->second;
    uint16_t found = 0;
    for (uint32_t op = 0; op < 0x10000 && !found; ++op) {
        const optable::Info& i = optable::info((uint16_t)op);
        if (i.entry < 0 || (i.form != "mov(Imm16,SttMod)" && i.form != "mov(Imm16,Register)"))
            continue;
        auto t = Teakra::Disassembler::GetTokenList((uint16_t)op, 0);
        if (!t.empty() && t.back() == word)
            found = (uint16_t)op;
    }
    if (!found)
        vf::add_note(std::string("inconclusive: no 'mov #imm16, ") + word + "' form found");
    cache[word] = found;
    return found;
}
int layout_index(const char* word) {
    for (size_t i = 0; i < layout::words().size(); ++i)
        if (layout::words()[i].name == std::string(word))
            return (int)i;
    return -1;
}

std::string encode(const Case& c) {
    std::string s;
    for (auto& op : c)
        s += std::string(kKindName[op.kind]) + " " + vf::hex(op.a) + " " + vf::hex(op.b) + " " + vf::hex(op.c) + "\n";
    return s;
}
Case decode(const std::string& text) {
    Case c;
    for (auto& l : vf::lines(text)) {
        auto t = vf::split_ws(l);
        if (t.size() < 4)
            continue;
        Op op;
        for (int k = 0; k < NKIND; ++k)
            if (t[0] == kKindName[k])
                op.kind = k;
        op.a = (uint32_t)vf::unhex(t[1]);
        op.b = (uint32_t)vf::unhex(t[2]);
        op.c = (uint32_t)vf::unhex(t[3]);
        c.push_back(op);
    }
    return c;
}

// ---- the model -------------------------------------------------------------------------------------------------------
struct Model {
    // controller
    uint16_t request = 0, enabled[3] = {0, 0, 0}, venabled = 0;
    uint32_t vector[16] = {0};
    bool vctx[16] = {false};
    // latches between controller and core
    bool latch[3] = {false, false, false}, vlatch = false;
    uint32_t vlatch_addr = 0;
    bool vlatch_ctx = false;
    std::vector<uint32_t> vlatch_alternatives; // several vectored IRQs raised by one trigger: the property does not say which vector wins
    // core
    State regs = flat::reset_state();
    std::map<uint16_t, uint16_t> data; // data memory written by the core (stack)
    // peripherals that raise IRQs by themselves
    struct Tm {
        uint32_t counter = 0;
        unsigned mode = 0;
        bool running = false;
    } tm[2];
    struct Bt {
        bool enabled = false;
        unsigned fill = 0;
        unsigned timer = 0;
    } bt[2];
    bool apbp_irq_disabled[3] = {false, false, false};
    uint64_t entries = 0;

    void trigger(uint16_t bits) {
        request |= bits;
        std::vector<uint32_t> alts;
        for (int irq = 0; irq < 16; ++irq) {
            if (!((bits >> irq) & 1))
                continue;
            for (int l = 0; l < 3; ++l)
                if ((enabled[l] >> irq) & 1)
                    latch[l] = true;
            if ((venabled >> irq) & 1) {
                vlatch = true;
                vlatch_addr = vector[irq];
                vlatch_ctx = vctx[irq];
                alts.push_back((uint32_t)irq);
            }
        }
        if (alts.size() > 1)
            vlatch_alternatives = alts;
        else if (alts.size() == 1)
            vlatch_alternatives.clear();
    }
    uint16_t rd(uint16_t a) const {
        auto it = data.find(a);
        return it == data.end() ? 0 : it->second;
    }
    void push_pc() {
        uint32_t pc = (uint32_t)regs[flat::F_pc];
        uint16_t l = (uint16_t)pc, h = (uint16_t)(pc >> 16);
        uint16_t sp = (uint16_t)regs[flat::F_sp];
        if (regs[flat::F_cpc]) {
            data[--sp] = h;
            data[--sp] = l;
        } else {
            data[--sp] = l;
            data[--sp] = h;
        }
        regs[flat::F_sp] = sp;
    }
    void pop_pc() {
        uint16_t sp = (uint16_t)regs[flat::F_sp], l, h;
        if (regs[flat::F_cpc]) {
            l = rd(sp++);
            h = rd(sp++);
        } else {
            h = rd(sp++);
            l = rd(sp++);
        }
        regs[flat::F_sp] = sp;
        regs[flat::F_pc] = (l | ((uint32_t)h << 16)) & 0x3FFFF;
    }
    // one instruction boundary. `instr`: 0 nop, 1 eint, 2 dint, 3 reti, 4 retic, 5 rep #n
    void step(int instr, unsigned n) {
        // requests latched by the controller become visible to the core at the top of the cycle
        for (int l = 0; l < 3; ++l)
            if (latch[l]) {
                latch[l] = false;
                regs[flat::F_ip + l] = 1;
            }
        if (vlatch) {
            vlatch = false;
            regs[flat::F_ipv] = 1;
        }
        regs[flat::F_pc] = regs[flat::F_pc] + 1;
        // single-instruction repeat: the fetched instruction is executed repc + 1 times
        if (regs[flat::F_rep]) {
            if (regs[flat::F_repc] == 0)
                regs[flat::F_rep] = 0;
            else {
                regs[flat::F_repc] = regs[flat::F_repc] - 1;
                regs[flat::F_pc] = regs[flat::F_pc] - 1;
            }
        }
        switch (instr) {
        case 1:
            regs[flat::F_ie] = 1;
            break;
        case 2:
            regs[flat::F_ie] = 0;
            break;
        case 3:
            pop_pc();
            regs[flat::F_ie] = 1;
            break;
        case 4:
            pop_pc();
            regs[flat::F_ie] = 1;
            rctx::restore(regs);
            break;
        case 5:
            regs[flat::F_repc] = n & 0xFF;
            regs[flat::F_rep] = 1;
            break;
        case 6:
        case 7:
        case 8:
        case 9: { // mov #imm16, st0 / st2 / mod3 / stt2: two words; the word's writable fields take the value, its read-only bits
                  // (the pending latches among them) and everything outside the word stay
            uint64_t pc = regs[flat::F_pc] + 1;
            regs = layout::write(layout_index(kStWord[instr - 6]), regs, (uint16_t)n);
            regs[flat::F_pc] = pc;
            break;
        }
        case 11: // brr -1: the program waits on a self-branch (the interpreter may fast-forward; the boundaries stay the same)
            regs[flat::F_pc] = regs[flat::F_pc] - 1;
            break;
        case 10: { // mov #imm5, icr: one word; the per-line context-switch bits (and nimc) take the value; bit 4 (loop) written 0
            uint64_t pc = regs[flat::F_pc];
            regs = layout::write(layout_index("icr"), regs, (uint16_t)(n & 0x0F));
            regs[flat::F_pc] = pc;
            break;
        }
        }
        // entry: first boundary where the global and the line enable are set and no repeat is running
        if (regs[flat::F_ie] && !regs[flat::F_rep]) {
            bool taken = false;
            for (int l = 0; l < 3 && !taken; ++l) {
                if (regs[flat::F_im + l] && regs[flat::F_ip + l]) {
                    regs[flat::F_ip + l] = 0;
                    regs[flat::F_ie] = 0;
                    push_pc();
                    regs[flat::F_pc] = 0x0006 + 8 * l;
                    if (regs[flat::F_ic + l])
                        rctx::store(regs);
                    taken = true;
                    ++entries;
                }
            }
            if (!taken && regs[flat::F_imv] && regs[flat::F_ipv]) {
                regs[flat::F_ipv] = 0;
                regs[flat::F_ie] = 0;
                push_pc();
                regs[flat::F_pc] = vlatch_addr;
                if (vlatch_ctx)
                    rctx::store(regs);
                ++entries;
            }
        }
        // peripherals tick at the end of the cycle
        for (int t = 0; t < 2; ++t) {
            if (!tm[t].running)
                continue;
            if (tm[t].counter == 0) {
                // single mode: stays stopped
            } else if (--tm[t].counter == 0) {
                trigger((uint16_t)(1u << (t == 0 ? 10 : 9)));
            }
        }
        for (int i = 0; i < 2; ++i) {
            if (!bt[i].enabled)
                continue;
            if (++bt[i].timer >= 4096) {
                bt[i].timer = 0;
                for (int k = 0; k < 2; ++k)
                    if (bt[i].fill) {
                        if (--bt[i].fill == 0)
                            trigger(1u << 11);
                    }
            }
        }
    }
};

rc::Gen<Op> genOp() {
    using namespace rc;
    auto bits = gen::weightedOneOf<uint32_t>({{3, gen::map(vf::range<int>(0, 16), [](int b) { return (uint32_t)(1u << b); })},
                                              {1, gen::element<uint32_t>(0, 0xFFFF, 0x0003, 0x0600, 0xC000)},
                                              {2, gen::map(vf::u16b(), [](uint16_t v) { return (uint32_t)v; })}});
    return gen::oneOf(
        gen::map(vf::range<uint32_t>(1, 6), [](uint32_t k) { return Op{Step, k, 0, 0}; }), gen::map(vf::range<uint32_t>(1, 4), [](uint32_t k) { return Op{Step, k, 0, 0}; }),
        gen::map(vf::range<uint32_t>(1, 6), [](uint32_t k) { return Op{Step, k, 0, 0}; }), gen::map(vf::range<uint32_t>(1, 3), [](uint32_t k) { return Op{Step, k, 0, 0}; }),
        gen::map(vf::range<uint32_t>(2, 6), [](uint32_t k) { return Op{Step, k, 0, 0}; }),
        gen::map(bits, [](uint32_t b) { return Op{Trigger, b, 0, 0}; }), gen::map(bits, [](uint32_t b) { return Op{Trigger, b, 0, 0}; }),
        gen::map(bits, [](uint32_t b) { return Op{Ack, b, 0, 0}; }),
        gen::map(gen::pair(vf::range<uint32_t>(0, 3), bits), [](std::pair<uint32_t, uint32_t> p) { return Op{SetEnable, p.first, p.second, 0}; }),
        gen::map(bits, [](uint32_t b) { return Op{SetVEnable, b, 0, 0}; }),
        gen::map(gen::tuple(vf::range<uint32_t>(0, 16), vf::range<uint32_t>(0x100, 0x1E000), vf::range<uint32_t>(0, 2)),
                 [](std::tuple<uint32_t, uint32_t, uint32_t> t) { return Op{SetVector, std::get<0>(t), std::get<1>(t), std::get<2>(t)}; }),
        gen::map(gen::tuple(vf::range<uint32_t>(0, 16), vf::range<uint32_t>(0x28000, 0x3E000), vf::range<uint32_t>(0, 2)),
                 [](std::tuple<uint32_t, uint32_t, uint32_t> t) { return Op{SetVector, std::get<0>(t), std::get<1>(t), std::get<2>(t)}; }),
        gen::map(gen::tuple(vf::range<uint32_t>(0, 2), vf::range<uint32_t>(0, 6), vf::range<uint32_t>(0, 39)),
                 [](std::tuple<uint32_t, uint32_t, uint32_t> t) { return Op{IdleRun, std::get<0>(t), std::get<1>(t), std::get<2>(t)}; }),
        gen::map(vf::range<uint32_t>(0, 1u << 13), [](uint32_t v) { return Op{PokeCore, v, 0, 0}; }),
        gen::map(vf::range<uint32_t>(0, 1u << 13), [](uint32_t v) { return Op{PokeCore, v | 0x0F, 0, 0}; }), // everything enabled
        gen::map(gen::pair(gen::element<uint32_t>(1, 1, 2, 3, 3, 4, 5), vf::range<uint32_t>(0, 6)), [](std::pair<uint32_t, uint32_t> p) { return Op{Exec, p.first, p.second, 0}; }),
        gen::map(gen::pair(vf::range<uint32_t>(6, 11), bits), [](std::pair<uint32_t, uint32_t> p) { return Op{Exec, p.first, p.second, 0}; }),
        gen::map(gen::pair(vf::range<uint32_t>(0, 2), vf::range<uint32_t>(1, 6)), [](std::pair<uint32_t, uint32_t> p) { return Op{TimerStart, p.first, p.second, 0}; }),
        gen::map(gen::pair(vf::range<uint32_t>(0, 3), vf::range<uint32_t>(0, 2)), [](std::pair<uint32_t, uint32_t> p) { return Op{HostSend, p.first, p.second, 0}; }),
        gen::just(Op{DmaStart, 0, 0, 0}),
        gen::map(gen::pair(vf::range<uint32_t>(0, 2), vf::range<uint32_t>(1, 4)), [](std::pair<uint32_t, uint32_t> p) { return Op{Audio, p.first, p.second, 0}; }));
}

vf::Result check(const Case& cs) {
    Sys& s = sys();
    s.t->Reset();
    s.log.clear();
    Model m;
    // start: nop sled at 0x1000, stack at 0x0800, nothing enabled
    m.regs[flat::F_pc] = 0x1000;
    m.regs[flat::F_sp] = 0x0800;
    s.set_regs(m.regs);
    std::string trace;
    unsigned classes = 0;
    auto fail = [&](const std::string& sig, const std::string& what, size_t i) {
        return vf::Result::fail(sig, what + " at op " + std::to_string(i) + " (" + trace + ")");
    };
    auto compare = [&](size_t i, const std::string& ctx) -> vf::Result {
        State got = s.regs();
        if (!m.vlatch_alternatives.empty() && got[flat::F_pc] != m.regs[flat::F_pc]) {
            // several vectored IRQs were raised by one trigger: any of their vectors is acceptable; follow the implementation
            for (uint32_t irq : m.vlatch_alternatives)
                if (got[flat::F_pc] == m.vector[irq]) {
                    State alt = m.regs;
                    // redo nothing else: only the target (and the context flag) may differ
                    alt[flat::F_pc] = m.vector[irq];
                    if (got == alt) {
                        m.regs = alt;
                        m.vlatch_alternatives.clear();
                    }
                }
        }
        if (!(got == m.regs)) {
            std::string d = flat::diff(got, m.regs);
            std::string first = d.substr(0, d.find(':'));
            std::string kind = first == "pc" ? (m.regs[flat::F_pc] < 0x1000 || m.regs[flat::F_pc] != got[flat::F_pc] ? "entry" : "pc") : first;
            return fail("C07:" + ctx + ":" + kind, "core state differs from the interrupt model (got vs expected) " + d, i);
        }
        uint16_t pend = s.t->MMIORead(0x200);
        if (pend != m.request)
            return fail("C07:" + ctx + ":pending", "controller pending register is " + vf::hex(pend) + " but must be " + vf::hex(m.request), i);
        uint16_t sp = (uint16_t)m.regs[flat::F_sp];
        for (int k = 0; k < 2; ++k)
            if (s.t->DataRead((uint16_t)(sp + k), true) != m.rd((uint16_t)(sp + k)))
                return fail("C07:" + ctx + ":stack", "stack word at sp+" + std::to_string(k) + " is " + vf::hex(s.t->DataRead((uint16_t)(sp + k), true)) +
                                                         " but must be " + vf::hex(m.rd((uint16_t)(sp + k))),
                            i);
        return vf::Result::pass();
    };
    auto do_steps = [&](size_t i, unsigned k, int instr, unsigned n, const std::string& ctx) -> vf::Result {
        for (unsigned j = 0; j < k; ++j) {
            uint32_t pc = (uint32_t)m.regs[flat::F_pc];
            uint16_t saved = 0;
            uint16_t saved2 = 0;
            if (instr && j == 0) {
                static const char* forms[] = {"", "eint()", "dint()", "reti(CondValue)", "retic(CondValue)", "rep(Imm8)"};
                uint16_t w = instr == 10 ? W("mov_icr(Imm5)", {(long)(n & 0x0F)})
                             : instr >= 6 ? mov_imm_to(kStWord[instr - 6])
                                        : (instr == 5 ? W(forms[5], {(long)(n & 0xFF)}) : (instr >= 3 ? W(forms[instr], {0}) : W(forms[instr], {})));
                saved = s.t->ProgramRead(pc);
                s.t->ProgramWrite(pc, w);
                if (instr >= 6 && instr <= 9) {
                    saved2 = s.t->ProgramRead(pc + 1);
                    s.t->ProgramWrite(pc + 1, (uint16_t)n);
                }
            }
            uint64_t e0 = m.entries;
            bool pending_masked = false;
            for (int l = 0; l < 3; ++l)
                if ((m.regs[flat::F_ip + l] || m.latch[l]) && !(m.regs[flat::F_im + l] && m.regs[flat::F_ie]))
                    pending_masked = true;
            bool two_pending = ((m.regs[flat::F_ip + 0] || m.latch[0]) + (m.regs[flat::F_ip + 1] || m.latch[1]) + (m.regs[flat::F_ip + 2] || m.latch[2]) +
                                (m.regs[flat::F_ipv] || m.vlatch)) >= 2;
            bool during_rep = m.regs[flat::F_rep] != 0;
            auto o = s.guarded([&] { s.t->Run(1); });
            if (instr && j == 0) {
                s.t->ProgramWrite(pc, saved);
                if (instr >= 6 && instr <= 9)
                    s.t->ProgramWrite(pc + 1, saved2);
            }
            if (o.kind != 0)
                return fail("C07:" + ctx + ":outcome", "Run(1) ended with " + o.what, i);
            m.step(j == 0 ? instr : 0, n);
            if (m.entries != e0) {
                classes |= 1;
                vf::klass("handler entry");
                if (two_pending)
                    vf::klass("entry while two or more lines were pending (priority)");
                if (m.regs[flat::F_pc] >= 0x100 && m.regs[flat::F_pc] != 0x1000)
                    ;
            } else if (pending_masked)
                vf::klass("request pending but masked / globally disabled at this boundary");
            if (during_rep && (m.latch[0] || m.regs[flat::F_ip + 0] || m.regs[flat::F_ip + 1] || m.regs[flat::F_ip + 2]))
                vf::klass("request pending during a single-instruction repeat");
            vf::Result r = compare(i, ctx);
            if (!r.ok)
                return r;
        }
        return vf::Result::pass();
    };
    for (size_t i = 0; i < cs.size(); ++i) {
        const Op& op = cs[i];
        std::string ctx = kKindName[op.kind];
        vf::Result r;
        // the sled: program pages 0/1 up to 0x1C000, and the part of pages 2/3 (= data memory, all zero) that neither the stack nor
        // the DMA operation ever writes
        if ((m.regs[flat::F_pc] > 0x1C000 && m.regs[flat::F_pc] < 0x28000) || m.regs[flat::F_pc] > 0x3F000) {
            vf::klass("history stopped: the nop sled would run into used data memory");
            break;
        }
        if (m.regs[flat::F_pc] >= 0x28000)
            vf::klass("executing in program page 2 / 3");
        switch (op.kind) {
        case Step:
            trace += "step*" + std::to_string(op.a) + " ";
            r = do_steps(i, op.a ? op.a : 1, 0, 0, ctx);
            if (!r.ok)
                return r;
            break;
        case Trigger:
            trace += "trig(" + vf::hex(op.a) + ") ";
            s.t->MMIOWrite(0x204, (uint16_t)op.a);
            m.trigger((uint16_t)op.a);
            if ((uint16_t)op.a && !((m.enabled[0] | m.enabled[1] | m.enabled[2] | m.venabled) & op.a))
                vf::klass("trigger of an unrouted IRQ");
            if (__builtin_popcount((m.enabled[0] & op.a) | 0) && (m.enabled[0] & m.enabled[1] & op.a))
                vf::klass("one IRQ routed to two lines");
            break;
        case Ack:
            trace += "ack(" + vf::hex(op.a) + ") ";
            s.t->MMIOWrite(0x202, (uint16_t)op.a);
            if (m.request & op.a && (m.request & ~op.a))
                vf::klass("acknowledge of a subset of the pending bits");
            m.request &= ~(uint16_t)op.a;
            break;
        case SetEnable:
            trace += "en" + std::to_string(op.a % 3) + "=" + vf::hex(op.b) + " ";
            s.t->MMIOWrite((uint16_t)(0x206 + 2 * (op.a % 3)), (uint16_t)op.b);
            m.enabled[op.a % 3] = (uint16_t)op.b;
            break;
        case SetVEnable:
            trace += "env=" + vf::hex(op.a) + " ";
            s.t->MMIOWrite(0x20C, (uint16_t)op.a);
            m.venabled = (uint16_t)op.a;
            break;
        case SetVector: {
            unsigned irq = op.a % 16;
            uint32_t addr = op.b & 0x3FFFF;
            trace += "vec" + std::to_string(irq) + "=" + vf::hex(addr) + (op.c ? "c " : " ");
            s.t->MMIOWrite((uint16_t)(0x212 + 4 * irq), (uint16_t)((addr >> 16) | (op.c ? 0x8000 : 0)));
            s.t->MMIOWrite((uint16_t)(0x214 + 4 * irq), (uint16_t)addr);
            m.vector[irq] = addr;
            m.vctx[irq] = op.c != 0;
            break;
        }
        case PokeCore: {
            // ie, im0-2, imv, ic0-2 and the context configuration (crep, ccnta, cpc) straight into the register state
            State st = s.regs();
            st[flat::F_ie] = op.a & 1;
            for (int l = 0; l < 3; ++l) {
                st[flat::F_im + l] = (op.a >> (1 + l)) & 1;
                st[flat::F_ic + l] = (op.a >> (5 + l)) & 1;
            }
            st[flat::F_imv] = (op.a >> 4) & 1;
            st[flat::F_crep] = (op.a >> 8) & 1;
            st[flat::F_ccnta] = (op.a >> 9) & 1;
            st[flat::F_cpc] = (op.a >> 10) & 1;
            // make the banks distinguishable so that a context store is visible
            st[flat::F_sat] = (op.a >> 11) & 1;
            st[flat::F_ss_sat] = !((op.a >> 11) & 1);
            st[flat::F_a + 1] = 0x1234;
            st[flat::F_b + 1] = flat::sext40(0xFF87654321ull);
            st[flat::F_repc] = 0x55 + (op.a & 7);
            st[flat::F_fz] = (op.a >> 12) & 1;
            s.set_regs(st);
            m.regs = st;
            trace += "poke(" + vf::hex(op.a) + ") ";
            break;
        }
        case Exec: {
            static const char* nm[] = {"nop", "eint", "dint", "reti", "retic", "rep"};
            if (op.a == 10) { // mov #imm5, icr: the context-switch configuration written through the Teak-native word
                trace += "mov#" + vf::hex(op.b & 0x0F) + ",icr ";
                vf::klass("program writes icr");
                r = do_steps(i, 1, 10, op.b & 0x0F, ctx);
                if (!r.ok)
                    return r;
                break;
            }
            if (op.a >= 6 && op.a <= 9) { // a status word written by the program (never under a single-instruction repeat: two words)
                if (m.regs[flat::F_rep]) {
                    vf::klass("status-word write skipped (repeat running)");
                    break;
                }
                trace += std::string("mov#") + vf::hex(op.b & 0xFFFF) + "," + kStWord[op.a - 6] + " ";
                vf::klass(std::string("program writes ") + kStWord[op.a - 6]);
                r = do_steps(i, 1, (int)op.a, op.b & 0xFFFF, ctx);
                if (!r.ok)
                    return r;
                break;
            }
            trace += std::string(nm[op.a % 6]) + (op.a % 6 == 5 ? "#" + std::to_string(op.b) : "") + " ";
            // a return pops whatever the stack holds; keep the target inside the sled
            if ((op.a % 6 == 3 || op.a % 6 == 4)) {
                uint16_t sp = (uint16_t)m.regs[flat::F_sp];
                uint32_t target = m.regs[flat::F_cpc] ? (m.rd(sp) | ((uint32_t)m.rd(sp + 1) << 16)) : (m.rd(sp + 1) | ((uint32_t)m.rd(sp) << 16));
                if (target >= 0x3F000) {
                    vf::klass("return with a wild stack word (skipped)");
                    break;
                }
            }
            r = do_steps(i, 1, (int)(op.a % 6), op.b, ctx);
            if (!r.ok)
                return r;
            break;
        }
        case IdleRun: {
            // the program idles on a self-branch while a timer (1..6 cycles) runs out, all inside ONE Run call of 2..40 cycles:
            // the request must be taken at the first boundary where it may, exactly as when every cycle is stepped
            if (m.regs[flat::F_rep]) {
                vf::klass("idle run skipped (repeat running)");
                break;
            }
            const uint32_t pc = (uint32_t)m.regs[flat::F_pc];
            const unsigned t = op.a % 2, start = 1 + op.b % 6, n = 2 + op.c % 39;
            const uint16_t base = (uint16_t)(0x20 + 0x10 * t);
            trace += "idlerun(timer" + std::to_string(t) + "=" + std::to_string(start) + "," + std::to_string(n) + ") ";
            const uint16_t saved = s.t->ProgramRead(pc);
            s.t->ProgramWrite(pc, W("brr(RelAddr7,CondValue)", {0x7F, 0}));
            s.t->MMIOWrite(base + 4, (uint16_t)start);
            s.t->MMIOWrite(base + 6, 0);
            s.t->MMIOWrite(base, 0x0400); // single mode, restart
            m.tm[t].counter = start;
            m.tm[t].running = true;
            auto o = s.guarded([&] { s.t->Run(n); });
            s.t->ProgramWrite(pc, saved);
            if (o.kind != 0)
                return fail("C07:idlerun:outcome", "Run(" + std::to_string(n) + ") ended with " + o.what, i);
            uint64_t e0 = m.entries;
            for (unsigned k = 0; k < n; ++k)
                m.step(m.regs[flat::F_pc] == pc ? 11 : 0, 0);
            if (m.entries != e0)
                vf::klass("handler entry out of an idle self-branch inside one Run call");
            vf::klass("idle self-branch with a timer running out, one Run call");
            r = compare(i, ctx);
            if (!r.ok)
                return r;
            break;
        }
        case TimerStart: {
            unsigned t = op.a % 2;
            uint16_t base = (uint16_t)(0x20 + 0x10 * t);
            trace += "timer" + std::to_string(t) + "=" + std::to_string(op.b) + " ";
            s.t->MMIOWrite(base + 4, (uint16_t)op.b);
            s.t->MMIOWrite(base + 6, 0);
            s.t->MMIOWrite(base, 0x0400); // single mode, restart
            m.tm[t].counter = op.b;
            m.tm[t].running = true;
            vf::klass("timer source armed");
            break;
        }
        case HostSend:
            trace += "hostsend" + std::to_string(op.a % 3) + " ";
            s.t->SendData((uint8_t)(op.a % 3), (uint16_t)(0x1111 * (op.b + 1)));
            m.trigger(1u << 14);
            vf::klass("mailbox source");
            break;
        case DmaStart: {
            // a one-word transfer inside DSP data memory (away from the stack and the sled)
            const uint16_t cfg[][2] = {{0x1BE, 0}, {0x1C0, 0x4000}, {0x1C2, 0}, {0x1C4, 0x4100}, {0x1C6, 0}, {0x1C8, 1}, {0x1CA, 1}, {0x1CC, 1}, {0x1DA, 0}, {0x1DE, 0x40C0}};
            for (auto& c : cfg)
                s.t->MMIOWrite(c[0], c[1]);
            m.trigger(1u << 15);
            trace += "dmastart ";
            vf::klass("DMA source");
            break;
        }
        case Audio: {
            unsigned p = op.a % 2;
            uint16_t b = (uint16_t)(0x80 * p);
            unsigned words = 1 + op.b % 3;
            if (m.bt[p].enabled)
                break;
            trace += "audio" + std::to_string(p) + "(" + std::to_string(words) + "w, 4096 cycles) ";
            for (unsigned k = 0; k < words; ++k)
                s.t->MMIOWrite(0x2C6 + b, (uint16_t)(0x100 + k));
            s.t->MMIOWrite(0x2BE + b, 1);
            m.bt[p].enabled = true;
            m.bt[p].fill = words;
            m.bt[p].timer = 0;
            // let the frame clock run: 4096 instruction steps in one go (all nops; entries are still compared at the end)
            unsigned frames = (words + 1) / 2;
            for (unsigned f = 0; f < frames; ++f) {
                // (4096 more nops must stay inside the sled: the end of the program space is a deliberate assertion, not an outcome
                //  this history is about -- a false alarm of ours seen once in a thorough run, vector 0x3C002 followed by three frames)
                const uint64_t pcn = m.regs[flat::F_pc];
                if ((pcn + 4200 > 0x1C000 && pcn < 0x28000) || pcn + 4200 > 0x3F000) {
                    vf::klass("history stopped: the nop sled would run into used data memory");
                    s.t->MMIOWrite(0x2BE + b, 0);
                    vf::note(vf::hash_str(encode(cs)), m.entries >= 1);
                    return vf::Result::pass();
                }
                auto o = s.guarded([&] { s.t->Run(4096); });
                if (o.kind != 0)
                    return fail("C07:audio:outcome", "Run(4096) ended with " + o.what, i);
                for (unsigned k = 0; k < 4096; ++k)
                    m.step(0, 0);
                r = compare(i, ctx);
                if (!r.ok)
                    return r;
            }
            s.t->MMIOWrite(0x2BE + b, 0);
            m.bt[p].enabled = false;
            vf::klass("audio port source");
            break;
        }
        }
        if (op.kind != Step && op.kind != Exec && op.kind != Audio && op.kind != IdleRun) {
            r = compare(i, ctx);
            if (!r.ok)
                return r;
        }
    }
    vf::note(vf::hash_str(encode(cs)), m.entries >= 1);
    if (m.entries >= 1 && cs.size() <= 8)
        vf::sample(trace);
    return vf::Result::pass();
}

} // namespace

int main(int argc, char** argv) {
    vf::init(argc, argv, "C07");
    vf::Property<Case> p;
    p.name = "interrupt_history";
    p.gen = [] {
        using namespace rc;
        // most histories start from a machine that can take interrupts: enables set, every source routed somewhere
        return gen::map(gen::tuple(gen::container<Case>(genOp()), vf::range<uint32_t>(0, 10), gen::resize(100, gen::arbitrary<uint32_t>()),
                                   gen::resize(100, gen::arbitrary<uint32_t>())),
                        [](std::tuple<Case, uint32_t, uint32_t, uint32_t> t) {
                            Case c;
                            uint32_t r = std::get<2>(t), q = std::get<3>(t);
                            if (std::get<1>(t) < 7) {
                                c.push_back(Op{PokeCore, (r & 0x1FE0) | 0x0F | ((q & 1) ? 0 : 0), 0, 0});
                                // each IRQ goes to one of: int0, int1, int2, vectored, two lines, nowhere
                                uint32_t en[4] = {0, 0, 0, 0};
                                uint64_t z = vf::mix64(q);
                                for (int irq = 0; irq < 16; ++irq) {
                                    unsigned k = (z >> (3 * irq)) & 7;
                                    if (k < 4)
                                        en[k] |= 1u << irq;
                                    else if (k == 4) {
                                        en[0] |= 1u << irq;
                                        en[1] |= 1u << irq;
                                    } else if (k == 5) {
                                        en[2] |= 1u << irq;
                                        en[3] |= 1u << irq;
                                    }
                                }
                                for (uint32_t l = 0; l < 3; ++l)
                                    c.push_back(Op{SetEnable, l, en[l], 0});
                                c.push_back(Op{SetVEnable, en[3], 0, 0});
                                for (uint32_t irq = 0; irq < 16; irq += 1 + (r & 3))
                                    c.push_back(Op{SetVector, irq, 0x2000 + 0x100 * irq + (q & 0xFF), (q >> (8 + irq)) & 1});
                            }
                            for (auto& op : std::get<0>(t))
                                c.push_back(op);
                            return c;
                        });
    };
    p.check = check;
    p.encode = encode;
    p.decode = decode;
    p.max_size = 60;
    vf::run(p);
    return vf::finish();
}
