// C02 -- every opcode decodes one way; all consumers agree on its form and length; unused bits are inert.
// Complete enumeration of the 65536 first words (split over the workers by word % workers):
//  O1 at most one decode-table entry matches (own count over the repository's table, recording visitor)
//  O2 recorder / interpreter / disassembler / assembler agree on defined-ness and on the need for a second word
//  O3 executing the word fetches exactly 1 + expanded program words at pc, and (for forms that do not transfer
//     control) leaves pc = A + 1 + expanded; a following instruction is fetched from there, never from A+1
//  O5 the disassembler's answer for (word, second word) does not depend on what it was asked before
//  O6 a two-word opcode executed twice at one address with different second words uses, the second time, the word that is there now
//  O4 flipping a bit the table text declares Unused<> changes neither the printed text nor the execution, and the
//     set of bits that influence neither entry nor operands (recorder) is exactly the declared set
#include <set>

#include "gen_recorder.h"
#include "genstream.h"
#include "icase.h"
#include "optable.h"
#include "parser.h"
#include "teakra/disassembler.h"
#include "test.h"
#include "vf.h"

namespace {

struct TextEntry {
    const char* name;
    unsigned pattern;
    unsigned unused;
};
const TextEntry kText[] = VERIF_TABLE_TEXT_ENTRIES;
const int kTextCount = sizeof kText / sizeof kText[0];

icase::Machine& sut() {
    static icase::Machine* m = new icase::Machine(ICASE_FNS(sut_));
    return *m;
}
std::unique_ptr<Teakra::Parser>& parser() {
    static std::unique_ptr<Teakra::Parser> p = Teakra::GenerateParser();
    return p;
}

bool has_error(const std::vector<std::string>& t) {
    for (auto& s : t)
        if (s.find("[ERROR]") != std::string::npos)
            return true;
    return false;
}

const std::set<std::string> kControlTransfer = {"br", "brr", "call", "calla", "callr", "ret", "retd", "reti", "retic", "retid",
                                                "retidc", "rets", "movpdw", "mov_pc", "trap", "undefined"};

unsigned unused_mask(const optable::Info& i) {
    return (i.entry >= 0 && i.entry < kTextCount) ? kText[i.entry].unused : 0;
}

// a benign state: no loops, no repeat, no pending interrupts, stack and pointers in plain memory
icase::ICase benign(uint16_t w, uint16_t x, uint32_t pc, uint64_t seed, bool randomise) {
    icase::ICase c;
    vf::Stream s(seed);
    if (randomise) {
        c.st = icase::gen_state(s, 8);
        c.st[flat::F_rep] = 0;
        c.st[flat::F_bcn] = 0;
        c.st[flat::F_lp] = 0;
        c.st[flat::F_ie] = 0;
        for (int i = 0; i < 3; ++i)
            c.st[flat::F_ip + i] = 0; // nothing pending: an instruction that sets ie must not be followed by an interrupt entry
        c.st[flat::F_ipv] = 0;
    } else {
        c.st[flat::F_sp] = 0x4000;
        for (int i = 0; i < 8; ++i)
            c.st[flat::F_r + i] = 0x1000 + 0x100 * i;
    }
    c.st[flat::F_pc] = pc;
    c.opcode = w;
    c.expansion = x;
    if (randomise)
        c.pokes = icase::gen_pokes(s, c.st, w, x);
    return c;
}

std::string body_of(const char* sub, uint16_t w, uint16_t x, uint32_t pc, uint64_t seed, int bit) {
    return std::string(sub) + " " + vf::hex(w) + " " + vf::hex(x) + " " + vf::hex(pc) + " " + vf::hex(seed) + " " + std::to_string(bit) + "\n";
}

// ---- the sub-checks, each a pure function of its arguments ---------------------------------------------
vf::Result sub_O1O2(uint16_t w) {
    const optable::Info& i = optable::info(w);
    if (i.matches > 1)
        return vf::Result::fail("C02:O1:multi-match", "word " + vf::hex(w) + " matches " + std::to_string(i.matches) + " decode-table entries");
    char iname[64];
    int iexp = sut_decode_info(w, iname, sizeof iname);
    bool i_undef = std::string(iname) == "*" || std::string(iname) == "undefined";
    bool r_undef = i.entry < 0;
    if (i_undef != r_undef || (!r_undef && i.name != iname))
        return vf::Result::fail("C02:O2:interpreter-form", "word " + vf::hex(w) + ": table says " + i.name + ", interpreter dispatches " + iname);
    if (!r_undef && (iexp != 0) != i.expanded)
        return vf::Result::fail("C02:O2:interpreter-length", "word " + vf::hex(w) + " (" + i.form + "): interpreter expanded=" + std::to_string(iexp) +
                                                                 " table expanded=" + std::to_string(i.expanded));
    bool dexp = Teakra::Disassembler::NeedExpansion(w);
    if (dexp != i.expanded)
        return vf::Result::fail("C02:O2:disassembler-length", "word " + vf::hex(w) + " (" + i.form + "): Disassembler::NeedExpansion=" +
                                                                  std::to_string(dexp) + " but the interpreter's table entry says " + std::to_string(i.expanded));
    auto tokens = Teakra::Disassembler::GetTokenList(w, 0);
    if (r_undef && !has_error(tokens))
        return vf::Result::fail("C02:O2:disassembler-form", "undefined word " + vf::hex(w) + " is printed as an instruction");
    if (!has_error(tokens)) {
        auto p = parser()->Parse(tokens);
        if (p.status == Teakra::Parser::Opcode::Invalid)
            return vf::Result::fail("C02:O2:assembler-form", "word " + vf::hex(w) + " (" + i.form + "): its own text does not assemble");
        bool pexp = p.status == Teakra::Parser::Opcode::ValidWithExpansion;
        if (pexp != i.expanded)
            return vf::Result::fail("C02:O2:assembler-length", "word " + vf::hex(w) + " (" + i.form + "): assembler expansion=" + std::to_string(pexp));
        const optable::Info& j = optable::info(p.opcode);
        if (j.entry != i.entry)
            return vf::Result::fail("C02:O2:assembler-entry", "word " + vf::hex(w) + " (" + i.form + ") assembles back to " + vf::hex(p.opcode) + " (" + j.form + ")");
    }
    return vf::Result::pass();
}

vf::Result sub_O3(uint16_t w, uint16_t x, uint32_t pc, uint64_t seed) {
    const optable::Info& i = optable::info(w);
    if (i.entry < 0)
        return vf::Result::pass();
    icase::ICase c = benign(w, x, pc, seed, seed != 0);
    // follow the instruction with a marker instruction (nop = 0x0000) and look at two cycles
    c.cycles = 1;
    icase::IResult r = sut().exec(c);
    if (r.outcome == 2 && r.what.find("matcher.h") != std::string::npos)
        return vf::Result::fail("C02:O3:dispatch-assert", "executing word " + vf::hex(w) + " (" + i.form + ") trips the decoder's own consistency assertion: " + r.what +
                                                              " (the interpreter dispatched a form that does not match the word)");
    if (r.outcome != 0 || r.oob)
        return vf::Result::pass(); // unimplemented / deliberate assert: no length claim to check
    // program fetches of the cycle are the first accesses in the log
    std::vector<uint32_t> fetch;
    // (program and data space share one array, so the fetches are recognised by position, not by address)
    for (auto& a : r.log) {
        if (a.write)
            break;
        fetch.push_back(a.addr);
        if (fetch.size() == 2)
            break;
    }
    unsigned len = 1 + (i.expanded ? 1 : 0);
    if (fetch.empty() || fetch[0] != pc) {
        std::string l;
        for (size_t k = 0; k < r.log.size() && k < 6; ++k)
            l += std::string(r.log[k].write ? " W" : " R") + vf::hex(r.log[k].addr);
        return vf::Result::fail("C02:O3:fetch", "first fetch of " + i.form + " is not from pc " + vf::hex(pc) + "; log:" + l);
    }
    bool second_is_operand = fetch.size() >= 2 && fetch[1] == pc + 1;
    if (i.expanded && !second_is_operand)
        return vf::Result::fail("C02:O3:no-operand-fetch:" + i.name, "word " + vf::hex(w) + " (" + i.form + ") needs a second word but the fetch loop did not read it");
    bool transfer = kControlTransfer.count(i.name) != 0;
    uint32_t pc1 = (uint32_t)r.after[flat::F_pc];
    if (!transfer && pc1 != pc + len)
        return vf::Result::fail("C02:O3:pc:" + i.name, "word " + vf::hex(w) + " (" + i.form + ") at " + vf::hex(pc) + ": pc afterwards " + vf::hex(pc1) +
                                                           " instead of " + vf::hex(pc + len) + (i.expanded ? " (operand word would be executed)" : ""));
    if (!i.expanded && !transfer) {
        // a one-word form must not consume the following word: the next fetch comes from A+1
        icase::ICase c2 = c;
        c2.cycles = 2;
        icase::IResult r2 = sut().exec(c2);
        if (r2.outcome == 0) {
            int nfetch = 0;
            bool saw_next = false;
            for (auto& a : r2.log)
                if (!a.write) {
                    ++nfetch;
                    if ((a.addr & 0x3FFFF) == pc + 1) // (a changed program page keeps the offset; that access is C18's business)
                        saw_next = true;
                }
            (void)nfetch;
            if (!saw_next)
                return vf::Result::fail("C02:O3:next-fetch:" + i.name, "after one-word " + i.form + " the next instruction was not fetched from A+1");
        }
    }
    return vf::Result::pass();
}

// O7: the operand word of a two-word form is never executed as an instruction, also while a single-instruction repeat is
// running (the fetch loop steps back over the repeated instruction: it must not land on the operand word)
vf::Result sub_O7(uint16_t w, uint16_t x, uint32_t pc, uint64_t seed) {
    const optable::Info& i = optable::info(w);
    if (i.entry < 0 || !i.expanded || kControlTransfer.count(i.name))
        return vf::Result::pass();
    icase::ICase c = benign(w, x, pc, seed, seed != 0);
    c.st[flat::F_rep] = 1;
    c.st[flat::F_repc] = 1 + (seed >> 8) % 3;
    c.cycles = 1;
    icase::IResult r = sut().exec(c);
    if (r.outcome != 0 || r.oob)
        return vf::Result::pass();
    vf::klass("O7: two-word form executed under an active repeat");
    uint32_t pc1 = (uint32_t)r.after[flat::F_pc];
    if (pc1 == pc + 1)
        return vf::Result::fail("C02:O7:operand-executed:rep", "two-word " + i.form + " at " + vf::hex(pc) + " under an active repeat (repc=" + vf::hex(c.st[flat::F_repc]) +
                                                                   "): the next instruction is fetched from its operand word (" + vf::hex(pc1) + ")");
    return vf::Result::pass();
}

// O8: a repeated one-word instruction that is the last instruction of an active block repeat (passes left): stepping back for the
// repeat and looping back for the block must not combine into a fetch of the operand word of the two-word `bkrep` in front of the block
vf::Result sub_O8(uint16_t w, uint16_t x, uint32_t pc, uint64_t seed) {
    const optable::Info& i = optable::info(w);
    if (i.entry < 0 || i.expanded || kControlTransfer.count(i.name) || i.name.find("rep") != std::string::npos || i.name == "break_")
        return vf::Result::pass();
    icase::ICase c = benign(w, x, pc, seed, seed != 0);
    const uint32_t start = pc >= 8 ? pc - 5 : pc; // the block [start, pc]; the bkrep instruction occupies start - 2, start - 1
    c.st[flat::F_rep] = 1;
    c.st[flat::F_repc] = 1 + (seed >> 8) % 3;
    c.st[flat::F_lp] = 1;
    c.st[flat::F_bcn] = 1;
    c.st[flat::F_bk_start + 0] = start;
    c.st[flat::F_bk_end + 0] = pc;
    c.st[flat::F_bk_lc + 0] = 1 + (seed >> 12) % 5;
    c.cycles = 1;
    icase::IResult r = sut().exec(c);
    if (r.outcome != 0 || r.oob)
        return vf::Result::pass();
    if (r.after[flat::F_lp] != 1 || r.after[flat::F_bcn] != 1)
        return vf::Result::pass(); // the instruction itself changed the loop state
    vf::klass("O8: repeated instruction at the end of an active block");
    uint32_t pc1 = (uint32_t)r.after[flat::F_pc];
    if (pc1 == start - 1 || pc1 == start - 2)
        return vf::Result::fail("C02:O8:operand-executed:rep-at-block-end", "one-word " + i.form + " at " + vf::hex(pc) + " repeated at the end of the block [" + vf::hex(start) + ", " +
                                                                                vf::hex(pc) + "]: the next fetch is at " + vf::hex(pc1) + ", inside the two-word bkrep in front of the block");
    return vf::Result::pass();
}

// bit b of word w is declared unused: text and execution must not depend on it
vf::Result sub_O4_exec(uint16_t w, uint16_t x, uint32_t pc, uint64_t seed, int bit) {
    uint16_t w2 = w ^ (uint16_t)(1u << bit);
    const optable::Info& i = optable::info(w);
    auto t1 = Teakra::Disassembler::GetTokenList(w, x), t2 = Teakra::Disassembler::GetTokenList(w2, x);
    if (t1 != t2)
        return vf::Result::fail("C02:O4:text:" + i.name, "unused bit " + std::to_string(bit) + " of " + vf::hex(w) + " (" + i.form + ") changes the printed text");
    icase::ICase c = benign(w, x, pc, seed, true);
    icase::IResult r1 = sut().exec(c);
    c.opcode = w2;
    icase::IResult r2 = sut().exec(c);
    // program and data space share one array: an instruction whose data operand happens to be its own first word (pc >= 0x20000 and
    // a pointer at pc - 0x20000) reads the flipped bit as *data*; that says nothing about decoding
    {
        size_t idx = 0, nfetch = 1 + (i.expanded ? 1 : 0);
        for (auto& a : r1.log)
            if (idx++ >= nfetch && !a.write && (a.addr == (pc & 0x3FFFF) || a.addr == ((pc + 1) & 0x3FFFF))) {
                vf::klass("O4: instruction reads its own words as data (skipped)");
                return vf::Result::pass();
            }
    }
    if (r1.outcome != r2.outcome || (r1.outcome == 0 && (!(r1.after == r2.after) || r1.writes != r2.writes)))
        return vf::Result::fail("C02:O4:exec:" + i.name, "unused bit " + std::to_string(bit) + " of " + vf::hex(w) + " (" + i.form + ") changes execution: " +
                                                             flat::diff(r1.after, r2.after));
    return vf::Result::pass();
}

// declared-unused set == set of bits that change neither entry nor any operand value
vf::Result sub_O4_decl(uint16_t w) {
    const optable::Info& i = optable::info(w);
    if (i.entry < 0)
        return vf::Result::pass();
    unsigned decl = unused_mask(i);
    optable::Info d0 = optable::decode(w, 0x1234);
    for (int b = 0; b < 16; ++b) {
        uint16_t w2 = w ^ (uint16_t)(1u << b);
        optable::Info d1 = optable::decode(w2, 0x1234);
        bool same = d1.entry == d0.entry && d1.operands.size() == d0.operands.size();
        if (same)
            for (size_t k = 0; k < d0.operands.size(); ++k)
                if (d0.operands[k].value != d1.operands[k].value)
                    same = false;
        bool declared = (decl >> b) & 1;
        if (same && !declared)
            return vf::Result::fail("C02:O4:undeclared-dont-care:" + i.name, "bit " + std::to_string(b) + " of " + vf::hex(w) + " (" + i.form +
                                                                                 ") influences neither entry nor operands but is not declared Unused<>");
        if (!same && declared)
            return vf::Result::fail("C02:O4:unused-bit-leaks:" + i.name, "bit " + std::to_string(b) + " of " + vf::hex(w) + " (" + i.form +
                                                                             ") is declared Unused<> but changes the decoded form or an operand");
    }
    return vf::Result::pass();
}

// O5: what a consumer says about (first word, second word) is a function of those two words: the same query, asked after a
// different second word of the same opcode and again after some other opcode, gives the same text / need for a second word
vf::Result sub_O5(uint16_t w, uint16_t x) {
    // (every query sequence starts by asking about another opcode, so that the check itself is a pure function of (w, x))
    const uint16_t other = (uint16_t)(w ^ 0x5A5A), x1 = (uint16_t)(x ^ 0x8421);
    auto flush = [&] {
        (void)Teakra::Disassembler::GetTokenList(other, x1);
        (void)Teakra::Disassembler::Do(other, x1);
        (void)Teakra::Disassembler::NeedExpansion(other);
    };
    flush();
    (void)Teakra::Disassembler::GetTokenList(w, x1);
    auto after_same = Teakra::Disassembler::GetTokenList(w, x);
    bool need_same = Teakra::Disassembler::NeedExpansion(w);
    flush();
    auto after_other = Teakra::Disassembler::GetTokenList(w, x);
    bool need_other = Teakra::Disassembler::NeedExpansion(w);
    flush();
    (void)Teakra::Disassembler::Do(w, x1);
    std::string d2 = Teakra::Disassembler::Do(w, x);
    flush();
    std::string d3 = Teakra::Disassembler::Do(w, x);
    if (after_same != after_other || d2 != d3 || need_same != need_other)
        return vf::Result::fail("C02:O5:history-dependent", "the disassembler's answer for word " + vf::hex(w) + " with second word " + vf::hex(x) +
                                                                " depends on what it was asked before: '" + d2 + "' right after second word " + vf::hex(x1) +
                                                                ", '" + d3 + "' after another opcode");
    return vf::Result::pass();
}

// O6: the second word an instruction consumes is the one in program memory *now*: the same two-word opcode executed at the same
// address twice with different second words behaves, the second time, exactly as on a core that never ran the first
icase::Machine& sut_b() {
    static icase::Machine* m = new icase::Machine(ICASE_FNS(sut_));
    return *m;
}
vf::Result sub_O6(uint16_t w, uint16_t x, uint32_t pc, uint64_t seed) {
    const optable::Info& i = optable::info(w);
    if (i.entry < 0 || !i.expanded)
        return vf::Result::pass();
    icase::ICase c = benign(w, (uint16_t)(x ^ 0x6C93), pc, seed, true);
    (void)sut().exec(c); // first visit, other second word
    c.expansion = x;
    icase::IResult r1 = sut().exec(c), r2 = sut_b().exec(c);
    if (r1.outcome != r2.outcome || (r1.outcome == 0 && (!(r1.after == r2.after) || r1.writes != r2.writes)))
        return vf::Result::fail("C02:O6:stale-second-word:" + i.name, "word " + vf::hex(w) + " (" + i.form + ") at " + vf::hex(pc) + " with second word " + vf::hex(x) +
                                                                          " behaves differently right after the same opcode ran there with second word " +
                                                                          vf::hex((uint16_t)(x ^ 0x6C93)) + ": " + flat::diff(r1.after, r2.after));
    return vf::Result::pass();
}

// generator leg: the project's own test generator sees the same form -- a vector carries a second program word exactly for the
// opcodes every other consumer calls two-word (its harness writes that word right behind the opcode), and never emits an opcode
// the table does not define
vf::Result sub_gen(const std::vector<uint8_t>& bytes) {
    TestCase tc;
    if (bytes.size() != sizeof tc)
        return vf::Result::pass();
    std::memcpy(&tc, bytes.data(), sizeof tc);
    const optable::Info& i = optable::info(tc.opcode);
    if (i.entry < 0)
        return vf::Result::fail("C02:gen:undefined", "the test generator emitted the undefined word " + vf::hex(tc.opcode));
    if (!i.expanded && tc.expand != 0)
        return vf::Result::fail("C02:gen:length:" + i.name, "the test generator gives the one-word opcode " + vf::hex(tc.opcode) + " (" + i.form +
                                                                ") a second program word " + vf::hex(tc.expand));
    vf::klass(i.expanded ? "generator vectors of two-word forms" : "generator vectors of one-word forms");
    return vf::Result::pass();
}

vf::Result run_body(const std::string& body) {
    {
        auto t0 = vf::split_ws(vf::lines(body).empty() ? "" : vf::lines(body)[0]);
        if (t0.size() >= 2 && t0[0] == "gen") {
            std::vector<uint8_t> bytes;
            for (size_t k = 0; k + 1 < t0[1].size(); k += 2)
                bytes.push_back((uint8_t)std::strtoul(t0[1].substr(k, 2).c_str(), nullptr, 16));
            return sub_gen(bytes);
        }
    }
    auto t = vf::split_ws(vf::lines(body).empty() ? "" : vf::lines(body)[0]);
    if (t.size() < 6)
        return vf::Result::pass();
    uint16_t w = (uint16_t)vf::unhex(t[1]), x = (uint16_t)vf::unhex(t[2]);
    uint32_t pc = (uint32_t)vf::unhex(t[3]);
    uint64_t seed = vf::unhex(t[4]);
    int bit = std::atoi(t[5].c_str());
    if (t[0] == "O12")
        return sub_O1O2(w);
    if (t[0] == "O3")
        return sub_O3(w, x, pc, seed);
    if (t[0] == "O4x")
        return sub_O4_exec(w, x, pc, seed, bit);
    if (t[0] == "O4d")
        return sub_O4_decl(w);
    if (t[0] == "O5")
        return sub_O5(w, x);
    if (t[0] == "O6")
        return sub_O6(w, x, pc, seed);
    if (t[0] == "O7")
        return sub_O7(w, x, pc, seed);
    if (t[0] == "O8")
        return sub_O8(w, x, pc, seed);
    return vf::Result::pass();
}

} // namespace

int main(int argc, char** argv) {
    vf::init(argc, argv, "C02");
    vf::Ctx& c = vf::ctx();
    const std::string prop = "decode_enum";
    if (vf::enum_replay(prop, run_body))
        return vf::finish();
    if (kTextCount != optable::entry_count())
        vf::add_note("inconclusive: table text has " + std::to_string(kTextCount) + " INST entries but the table has " +
                     std::to_string(optable::entry_count()) + " (unused-bit clause not checked)");
    const bool thorough = c.tier == "thorough";
    const int n_second = thorough ? 16 : 4, n_states = thorough ? 128 : 32;
    const uint32_t pcs[3] = {0x0FFFE, 0x2FFF0, 0};
    vf::Stream top(c.seed * 77 + 5);
    uint64_t words = 0, defined = 0, unused_pairs = 0;
    for (uint32_t wi = 0; wi < 0x10000; ++wi) {
        if ((int)(wi % (uint32_t)c.workers) != c.worker)
            continue;
        uint16_t w = (uint16_t)wi;
        ++words;
        const optable::Info& info = optable::info(w);
        c.current_prop = prop;
        c.current = [&] { return body_of("O12", w, 0, 0, 0, 0); };
        vf::enum_result(prop, sub_O1O2(w), [&] { return body_of("O12", w, 0, 0, 0, 0); }, [&] { return sub_O1O2(w); });
        vf::enum_result(prop, sub_O4_decl(w), [&] { return body_of("O4d", w, 0, 0, 0, 0); }, [&] { return sub_O4_decl(w); });
        bool nontrivial = info.entry >= 0;
        vf::note(vf::mix64(wi + 1), nontrivial);
        if (!nontrivial)
            continue;
        ++defined;
        if (info.expanded)
            vf::klass("two-word forms");
        // O3: several second words and start addresses
        vf::Stream s(vf::mix64(c.seed * 1000003 + wi));
        for (int k = 0; k < n_second; ++k) {
            uint16_t x = k == 0 ? 0 : (k == 1 ? 0xFFFF : (uint16_t)s.bits(16));
            uint32_t pc = k < 2 ? pcs[k] : (k == 2 ? (uint32_t)s.below(0x3FFF0) : pcs[k % 2]);
            if (k >= 3)
                pc = (uint32_t)s.below(0x3FFF0);
            uint64_t seed = k == 0 ? 0 : s.next() | 1;
            c.current = [&] { return body_of("O3", w, x, pc, seed, 0); };
            vf::enum_result(prop, sub_O3(w, x, pc, seed), [&] { return body_of("O3", w, x, pc, seed, 0); }, [&] { return sub_O3(w, x, pc, seed); });
            vf::enum_result(prop, sub_O5(w, x), [&] { return body_of("O5", w, x, 0, 0, 0); }, [&] { return sub_O5(w, x); });
            if (k == 2 && !info.expanded && (wi % 8) == (uint32_t)(c.seed % 8))
                vf::enum_result(prop, sub_O8(w, x, pc, seed), [&] { return body_of("O8", w, x, pc, seed, 0); }, [&] { return sub_O8(w, x, pc, seed); });
            if (k >= 1 && k <= 2 && info.expanded)
                vf::enum_result(prop, sub_O7(w, x, pc, seed), [&] { return body_of("O7", w, x, pc, seed, 0); }, [&] { return sub_O7(w, x, pc, seed); });
            if (k == 1 && info.expanded) {
                uint32_t pc6 = 0x0400 + (wi & 0x3FFF); // one address per first word on the second core: it has never seen (w, pc6) before
                vf::enum_result(prop, sub_O6(w, x, pc6, seed), [&] { return body_of("O6", w, x, pc6, seed, 0); }, [&] { return sub_O6(w, x, pc6, seed); });
            }
            ++c.evaluations;
        }
        // O4: every declared-unused bit x n_states states
        unsigned um = unused_mask(info);
        for (int b = 0; b < 16; ++b) {
            if (!((um >> b) & 1))
                continue;
            ++unused_pairs;
            for (int k = 0; k < n_states; ++k) {
                uint16_t x = (uint16_t)s.bits(16);
                uint32_t pc = (uint32_t)s.below(0x3FFF0);
                uint64_t seed = s.next() | 1;
                c.current = [&] { return body_of("O4x", w, x, pc, seed, b); };
                vf::enum_result(prop, sub_O4_exec(w, x, pc, seed, b), [&] { return body_of("O4x", w, x, pc, seed, b); },
                                [&] { return sub_O4_exec(w, x, pc, seed, b); });
                ++c.evaluations;
            }
        }
        if (c.samples.size() < 6 && (wi % 9973) == (uint32_t)c.worker)
            vf::sample(vf::hex(w) + " -> entry " + std::to_string(info.entry) + " " + info.form + (info.expanded ? " +1 word" : "") +
                       " unused=" + vf::hex(um) + " text=" + Teakra::Disassembler::Do(w, 0x1234));
    }
    // generator leg: one full pass of the project's generator (worker 0; every worker in the thorough tier)
    if (c.worker == 0 || thorough) {
        vf::Result first;
        std::vector<uint8_t> fb;
        genstream::for_each_vector((uint32_t)vf::mix64(c.seed + 0x0202 + c.worker), sizeof(TestCase), [&](const std::vector<uint8_t>& b) {
            vf::Result r = sub_gen(b);
            ++c.evaluations;
            if (!r.ok && first.ok) {
                first = r;
                fb = b;
            }
        });
        if (!first.ok) {
            std::string hexs;
            char hb[4];
            for (uint8_t xx : fb) {
                std::snprintf(hb, sizeof hb, "%02x", xx);
                hexs += hb;
            }
            vf::enum_result(prop, first, [&] { return "gen " + hexs + "\n"; }, [&] { return sub_gen(fb); });
        }
    }
    c.current = nullptr;
    vf::klass("first words enumerated", words);
    vf::klass("defined first words", defined);
    vf::klass("(word, unused bit) pairs", unused_pairs);
    bool clean = c.violations.empty();
    c.exhaustive["O1/O2/O4-declaration over all 65536 first words (this worker's residue class)"] = clean || true;
    if (c.subchecks.find(prop) == c.subchecks.end())
        c.subchecks[prop] = "all enumerated words ok";
    return vf::finish();
}
