// C08 -- calls/returns, stack push/pop and context switches restore state exactly.
// All sub-checks are inverse-pair relations executed on the real core (two or three instructions per case):
//  callret   call form x return form x both pc word orders: resumes after the call, sp restored (rets: +k), the two
//            stack words are the return address in the order cpc selects, nothing else changes
//  pushpop   push X ; pop X for every pushable/poppable operand: X (as read through the same view) and sp restored
//  irq       interrupt entry + reti/retic: resumes the interrupted stream, ie = 1, sp restored; with a context switch
//            the whole visible state and every two-way bank are back, the one-way slots hold the saved values
//  cntx      cntx s ; cntx r   /   banke f ; banke f   /   bankr ; bankr  are identities (same one-way rule)
#include <map>

#include "icase.h"
#include "imodel.h"
#include "optable.h"
#include "pseudo_layout.h"
#include "vf.h"

namespace {

using flat::State;
using icase::ICase;

icase::Machine& sut() {
    static icase::Machine* m = new icase::Machine(ICASE_FNS(sut_));
    return *m;
}

uint16_t W(const std::string& form, const std::vector<long>& v) {
    static std::map<std::string, int> cache;
    std::string key = form;
    for (long x : v)
        key += "," + std::to_string(x);
    auto it = cache.find(key);
    if (it == cache.end())
        it = cache.emplace(key, optable::find_word(form, v)).first;
    return (uint16_t)(it->second < 0 ? 0 : it->second);
}
bool have(const std::string& form, const std::vector<long>& v) {
    return optable::find_word(form, v) >= 0;
}

void base_state(ICase& c, vf::Stream& s) {
    c.st = icase::gen_state(s, 8);
    State& st = c.st;
    st[flat::F_rep] = 0;
    st[flat::F_bcn] = 0;
    st[flat::F_lp] = 0;
    st[flat::F_ie] = 0;
    for (int i = 0; i < 3; ++i)
        st[flat::F_ip + i] = 0;
    st[flat::F_ipv] = 0;
    st[flat::F_sat] = 1; // saturation disabled (precondition of the property)
    st[flat::F_sata] = 1;
    st[flat::F_pc] = 0x1000 + s.below(0x2000);
    st[flat::F_sp] = 0x4000 + s.below(0x8000); // stack in plain data memory, far from the MMIO cell
}

// ---- callret ---------------------------------------------------------------------------------------------------------
ICase build_callret(vf::Stream& s) {
    ICase c;
    base_state(c, s);
    State& st = c.st;
    unsigned callform = (unsigned)s.below(4), retform = (unsigned)s.below(3);
    unsigned cond = (unsigned)s.below(16);
    uint32_t A = (uint32_t)st[flat::F_pc];
    if (s.chance(1, 6))
        A = (s.chance(1, 2) ? 0x0FFFC : 0x1FFFD) + (uint32_t)s.below(4); // return address with a carry into the upper word
    st[flat::F_pc] = A;
    st[flat::F_cpc] = s.bits(1);
    uint32_t T;
    switch (callform) {
    case 0:
        T = (uint32_t)s.below(0x3FFF0);
        if (T >= A && T < A + 4)
            T += 8;
        c.opcode = W("call(Address18_16,Address18_2,CondValue)", {-1, (long)(T >> 16), (long)cond});
        c.expansion = (uint16_t)T;
        break;
    case 1: {
        int rel = s.chance(1, 2) ? 1 + (int)s.below(63) : -2 - (int)s.below(63);
        T = (uint32_t)(A + 1 + rel);
        c.opcode = W("callr(RelAddr7,CondValue)", {(long)(rel & 0x7F), (long)cond});
        break;
    }
    case 2: {
        unsigned a = (unsigned)s.bits(1);
        T = (uint32_t)s.below(0x10000);
        if (T >= A && T < A + 4)
            T = (T + 8) & 0xFFFF;
        st[flat::F_a + a] = (st[flat::F_a + a] & ~0xFFFFull) | T;
        c.opcode = W("calla(Axl)", {(long)a});
        cond = 0;
        break;
    }
    default: {
        unsigned a = (unsigned)s.bits(1);
        T = (uint32_t)s.below(0x3FFF0);
        if (T >= A && T < A + 4)
            T += 8;
        st[flat::F_a + a] = flat::sext40((s.bits(40) & ~0x3FFFFull) | T);
        c.opcode = W("calla(Ax)", {(long)a});
        cond = 0;
        break;
    }
    }
    {
        // keep the return instruction clear of the two stack cells (program and data space share one array)
        uint32_t stack_word = 0x20000u + (uint16_t)st[flat::F_sp];
        if (T + 8 > stack_word - 8 && T < stack_word + 8 && callform != 1 && callform != 2) {
            st[flat::F_sp] = (uint16_t)(st[flat::F_sp] + 0x100);
        }
    }
    unsigned k = (unsigned)s.below(256);
    uint16_t retw = retform == 0 ? W("ret(CondValue)", {0}) : (retform == 1 ? W("rets(Imm8)", {(long)k}) : W("reti(CondValue)", {0}));
    c.pokes.push_back({T, retw});
    c.cycles = 2;
    c.tag = "callret " + std::to_string(callform) + " " + std::to_string(retform) + " " + std::to_string(cond) + " " + vf::hex(T) + " " + std::to_string(k);
    return c;
}

vf::Result check_callret(const ICase& c, const std::vector<std::string>& t) {
    unsigned callform = std::stoul(t[1]), retform = std::stoul(t[2]), cond = std::stoul(t[3]);
    unsigned k = std::stoul(t[5]);
    const optable::Info& ci = optable::info(c.opcode);
    uint32_t A = (uint32_t)c.st[flat::F_pc], len = 1 + (ci.expanded ? 1 : 0);
    bool taken = imodel::cond_pass(c.st, cond);
    ICase run = c;
    run.cycles = taken ? 2 : 1;
    icase::IResult r = sut().exec(run);
    std::string where = ci.form + " + " + (retform == 0 ? "ret" : (retform == 1 ? "rets" : "reti")) + " cpc=" + vf::hex(c.st[flat::F_cpc]) + " A=" + vf::hex(A);
    if (r.outcome != 0) {
        vf::note(0, false);
        return vf::Result::pass();
    }
    State want = c.st;
    want[flat::F_pc] = A + len;
    if (taken) {
        if (retform == 1)
            want[flat::F_sp] = (uint16_t)(c.st[flat::F_sp] + k);
        if (retform == 2)
            want[flat::F_ie] = 1;
    }
    if (!(r.after == want)) {
        std::string d = flat::diff(r.after, want);
        return vf::Result::fail(std::string("C08:callret:") + (taken ? "taken:" : "nottaken:") + std::to_string(callform) + ":" + d.substr(0, d.find(':')),
                                "after call + return the state is not the state after the call instruction (got vs expected) " + d + " for " + where);
    }
    uint16_t sp = (uint16_t)c.st[flat::F_sp];
    if (!taken) {
        if (!r.writes.empty())
            return vf::Result::fail("C08:callret:nottaken:write", "a call whose condition is false wrote memory, for " + where);
        vf::klass("call not taken");
        vf::note(vf::hash_str(icase::encode(c)), false);
        return vf::Result::pass();
    }
    uint32_t ret = A + len;
    uint16_t l = (uint16_t)ret, h = (uint16_t)(ret >> 16);
    uint16_t first = c.st[flat::F_cpc] ? h : l, second = c.st[flat::F_cpc] ? l : h; // pushed first -> at sp-1
    auto w1 = r.writes.find(0x20000u + (uint16_t)(sp - 1)), w2 = r.writes.find(0x20000u + (uint16_t)(sp - 2));
    if (w1 == r.writes.end() || w2 == r.writes.end() || w1->second != first || w2->second != second || r.writes.size() != 2)
        return vf::Result::fail("C08:callret:stackwords", "stack words are not the return address " + vf::hex(ret) + " in the order cpc selects, for " + where);
    vf::klass("call form " + std::to_string(callform) + " / return form " + std::to_string(retform));
    if (h)
        vf::klass("return address above 0xFFFF");
    vf::note(vf::hash_str(icase::encode(c)), true);
    return vf::Result::pass();
}

// ---- pushpop ---------------------------------------------------------------------------------------------------------
struct PP {
    const char* name;
    const char* push_form;
    const char* pop_form;
    int n_operands; // operand value range (0 = no operand)
};
const PP kPP[] = {
    {"reg", "push(Register)", "pop(Register)", 32}, {"abe", "push(Abe)", "pop(Abe)", 4},   {"sttmod", "push(ArArpSttMod)", "pop(ArArpSttMod)", 16},
    {"px", "push(Px)", "pop(Px)", 2},              {"r6", "push_r6()", "pop_r6()", 0},     {"repc", "push_repc()", "pop_repc()", 0},
    {"x0", "push_x0()", "pop_x0()", 0},            {"x1", "push_x1()", "pop_x1()", 0},     {"y1", "push_y1()", "pop_y1()", 0},
    {"prpage", "push_prpage()", "pop_prpage()", 0}, {"pusha_a", "pusha(Ax)", "popa(Ab)", 2}, {"pusha_b", "pusha(Bx)", "popa(Ab)", 2},
    {"imm", "push(Imm16)", "pop(Register)", 32},
};
const char* kSttMod[16] = {"ar0", "ar1", "arp0", "arp1", "arp2", "arp3", nullptr, nullptr, "stt0", "stt1", "stt2", nullptr, "mod0", "mod1", "mod2", "mod3"};
const char* kAbe[4] = {"b0", "b1", "a0", "a1"};

int acc_of(const std::string& n) { // "a0".."b1" -> field
    return (n[0] == 'a' ? flat::F_a : flat::F_b) + (n[1] - '0');
}

/// the value of operand X as the push instruction reads it; ok=false: operand outside "pushable"
uint64_t view(const State& s, const std::string& kind, unsigned op, bool& ok) {
    ok = true;
    if (kind == "reg" || kind == "imm") {
        std::string rn = ralu::kRegisterOperand[op & 31];
        if (rn == "pc" || rn == "a0" || rn == "a1") { // pc: deliberate assert; whole accumulators go through pusha/popa
            ok = false;
            return 0;
        }
        if (rn == "p")
            return (uint16_t)(s[flat::F_p + 0] >> 16); // product shifter neutral (precondition)
        bool k;
        uint16_t v = ralu::read16(s, rn, k);
        ok = k;
        return v;
    }
    if (kind == "abe")
        return (s[acc_of(kAbe[op & 3])] >> 32) & 0xFF;
    if (kind == "sttmod") {
        if (!kSttMod[op & 15]) {
            ok = false;
            return 0;
        }
        return layout::read(ralu::word_index(kSttMod[op & 15]), s);
    }
    if (kind == "px")
        return s[flat::F_p + (op & 1)];
    if (kind == "r6")
        return s[flat::F_r + 6];
    if (kind == "repc")
        return s[flat::F_repc];
    if (kind == "x0")
        return s[flat::F_x + 0];
    if (kind == "x1")
        return s[flat::F_x + 1];
    if (kind == "y1")
        return s[flat::F_y + 1];
    if (kind == "prpage")
        return s[flat::F_prpage];
    if (kind == "pusha_a")
        return s[flat::F_a + (op & 1)] & 0xFFFFFFFFull;
    if (kind == "pusha_b")
        return s[flat::F_b + (op & 1)] & 0xFFFFFFFFull;
    ok = false;
    return 0;
}

ICase build_pushpop(vf::Stream& s) {
    ICase c;
    base_state(c, s);
    const PP& pp = kPP[s.below(sizeof kPP / sizeof kPP[0])];
    unsigned op = pp.n_operands ? (unsigned)s.below(pp.n_operands) : 0;
    c.st[flat::F_ps + 0] = c.st[flat::F_ps + 1] = 0; // product shifter neutral
    std::string kind = pp.name;
    long pop_op = op;
    if (kind == "pusha_a")
        pop_op = 2 + op; // Ab encoding: b0 b1 a0 a1
    if (kind == "imm") {
        std::string rn = ralu::kRegisterOperand[op & 31];
        if (rn == "st1" || rn == "st2") // words with reserved / read-only bits do not hold an arbitrary immediate
            op = 0;
        c.opcode = W(pp.push_form, {-1});
        c.expansion = icase::gen_u16(s);
        c.more_code = {W(pp.pop_form, {(long)op})};
        c.cycles = 2;
        c.tag = "pushpop imm " + std::to_string(op);
        return c;
    }
    c.opcode = pp.n_operands ? W(pp.push_form, {(long)op}) : W(pp.push_form, {});
    // (the slot after a one-word push is the second word of the ICase; the pop follows as more_code[..])
    uint16_t popw = pp.n_operands ? W(pp.pop_form, {pop_op}) : W(pp.pop_form, {});
    c.expansion = popw; // one-word push: the next instruction sits at pc+1
    c.cycles = 2;
    c.tag = std::string("pushpop ") + pp.name + " " + std::to_string(op);
    return c;
}

vf::Result check_pushpop(const ICase& c, const std::vector<std::string>& t) {
    std::string kind = t[1];
    unsigned op = std::stoul(t[2]);
    bool ok;
    uint64_t before = view(c.st, kind, op, ok);
    if (!ok) {
        vf::klass("operand outside 'pushable' (pc, whole accumulator through a 16-bit push, undefined register code)");
        vf::note(0, false);
        return vf::Result::pass();
    }
    icase::IResult r = sut().exec(c);
    if (r.outcome != 0) {
        vf::klass("push/pop pair did not complete: no claim");
        vf::note(0, false);
        return vf::Result::pass();
    }
    std::string where = optable::info(c.opcode).form + " op=" + vf::hex(c.opcode) + " then " + optable::info(kind == "imm" ? c.more_code[0] : c.expansion).form;
    uint64_t after = view(r.after, kind, op, ok);
    uint64_t expect = kind == "imm" ? c.expansion : before;
    std::string rn = (kind == "reg" || kind == "imm") ? ralu::kRegisterOperand[op & 31] : "";
    if (after != expect)
        return vf::Result::fail("C08:pushpop:value:" + kind + (rn.empty() ? "" : ":" + rn), "value read back after push/pop is " + vf::hex(after) + " instead of " +
                                                                                               vf::hex(expect) + " for " + where);
    uint16_t sp0 = (uint16_t)c.st[flat::F_sp];
    uint16_t sp_want = (kind == "imm" && rn == "sp") ? c.expansion : sp0;
    if ((uint16_t)r.after[flat::F_sp] != sp_want)
        return vf::Result::fail("C08:pushpop:sp:" + kind, "sp after push/pop is " + vf::hex(r.after[flat::F_sp]) + " instead of " + vf::hex(sp_want) + " for " + where);
    if (r.after[flat::F_pc] != c.st[flat::F_pc] + (kind == "imm" ? 3 : 2))
        return vf::Result::fail("C08:pushpop:pc:" + kind, "pc after the pair is " + vf::hex(r.after[flat::F_pc]) + " for " + where);
    if ((kind == "pusha_a" || kind == "pusha_b")) {
        int f = (kind == "pusha_a" ? flat::F_a : flat::F_b) + (op & 1);
        int64_t v = (int64_t)c.st[f];
        if (ralu::fits32(v) && r.after[f] != c.st[f])
            return vf::Result::fail("C08:pushpop:acc:" + kind, "a 32-bit accumulator value was not restored by pusha/popa for " + where);
        if (ralu::fits32(v))
            vf::klass("whole accumulator restored (value fits 32 bits)");
    }
    bool nontrivial = before != 0;
    vf::klass("push/pop " + kind);
    vf::note(vf::hash_str(icase::encode(c)), nontrivial);
    return vf::Result::pass();
}

// ---- interrupt entry / exit, context -----------------------------------------------------------------------------------
/// what `store ; restore` must leave behind, given the state right before the store
State after_context_roundtrip(const State& s) {
    State e = s;
    static const int vis[] = {flat::F_flm, flat::F_fvl, flat::F_fe, flat::F_fc0, flat::F_fc1, flat::F_fv, flat::F_fn, flat::F_fm, flat::F_fz, flat::F_fr};
    static const int sh[] = {flat::F_sh_flm, flat::F_sh_fvl, flat::F_sh_fe, flat::F_sh_fc0, flat::F_sh_fc1, flat::F_sh_fv, flat::F_sh_fn, flat::F_sh_fm,
                             flat::F_sh_fz, flat::F_sh_fr};
    for (int i = 0; i < 10; ++i)
        e[sh[i]] = s[vis[i]]; // one-way slots take the saved values
    if (!s[flat::F_crep])
        e[flat::F_repcs] = s[flat::F_repc];
    if (!s[flat::F_ccnta]) {
        e[flat::F_a1s] = s[flat::F_a + 1];
        e[flat::F_b1s] = s[flat::F_b + 1];
    }
    return e;
}

ICase build_irq(vf::Stream& s) {
    ICase c;
    base_state(c, s);
    State& st = c.st;
    unsigned line = (unsigned)s.below(4); // 3 = vectored
    bool ctx = s.bits(1);
    st[flat::F_ie] = 1;
    for (int i = 0; i < 3; ++i) {
        st[flat::F_im + i] = 0;
        st[flat::F_ic + i] = 0;
    }
    st[flat::F_imv] = 0;
    uint32_t handler;
    if (line < 3) {
        st[flat::F_im + line] = 1;
        st[flat::F_ic + line] = ctx;
        handler = 0x0006 + 8 * line;
        c.irq_mask = 1u << line;
    } else {
        st[flat::F_imv] = 1;
        handler = 0x3000 + (uint32_t)s.below(0x1000);
        c.irq_mask = 8;
        c.vaddr = handler;
        c.vctx = ctx;
    }
    st[flat::F_cpc] = s.bits(1);
    if (!ctx && s.chance(1, 6)) {
        // the interrupted stream is a single-instruction repeat: `rep #n ; inc a0`. The request is latched in the cycle that
        // executes `rep`; the stream that resumes after the return must have run its instruction n + 1 times
        unsigned n = 1 + (unsigned)s.below(12);
        c.opcode = W("rep(Imm8)", {(long)n});
        c.expansion = W("moda4(ModaOp#16,Ax,CondValue)", {13, 0, 0}); // inc a0 (the word after `rep`)
        c.pokes.push_back({handler, W("reti(CondValue)", {0})});
        c.cycles = n + 3;
        c.tag = "irqrep " + std::to_string(n);
        return c;
    }
    c.opcode = 0x0000; // nop: the interrupted stream
    c.expansion = 0x0000;
    // handler: either the bare return, or "mov #v, stt0 ; reti/retic <cond>" with a condition that holds on the handler's own
    // flags v (and may or may not hold on the interrupted stream's flags, which a context restore brings back)
    if (s.chance(1, 3)) {
        uint16_t retw = ctx ? W("retic(CondValue)", {0}) : W("reti(CondValue)", {0});
        c.pokes.push_back({handler, retw});
        c.cycles = 2;
        c.tag = "irq " + std::to_string(line) + " " + std::to_string(ctx) + " " + vf::hex(handler);
        return c;
    }
    static const int stt0w = [] {
        for (size_t i = 0; i < layout::words().size(); ++i)
            if (layout::words()[i].name == std::string("stt0"))
                return (int)i;
        return -1;
    }();
    uint16_t v = 0;
    unsigned cond = 0;
    for (int attempt = 0; attempt < 64; ++attempt) {
        v = icase::gen_u16(s);
        cond = 1 + (unsigned)s.below(11); // eq .. l: the flag conditions
        if (imodel::cond_pass(layout::write(stt0w, st, v), cond))
            break;
        cond = 0;
    }
    c.pokes.push_back({handler, W("mov(Imm16,SttMod)", {-1, 0})});
    c.pokes.push_back({handler + 1, v});
    c.pokes.push_back({handler + 2, ctx ? W("retic(CondValue)", {(long)cond}) : W("reti(CondValue)", {(long)cond})});
    c.cycles = 3;
    c.tag = "irq " + std::to_string(line) + " " + std::to_string(ctx) + " " + vf::hex(handler) + " " + vf::hex(v) + " " + std::to_string(cond);
    return c;
}

vf::Result check_irq(const ICase& c, const std::vector<std::string>& t) {
    unsigned line = std::stoul(t[1]);
    bool ctx = t[2] == "1";
    // the context switch swaps the interrupt masks as well (im/imv are part of the two-way bank); to have retic run
    // with the entry's configuration nothing more is needed -- it executes unconditionally in the handler
    icase::IResult r = sut().exec(c);
    if (r.outcome != 0) {
        vf::note(0, false);
        return vf::Result::pass();
    }
    State base = c.st;
    base[flat::F_pc] = c.st[flat::F_pc] + 1; // the interrupted stream continues after the nop
    bool flagged = t.size() >= 6; // the handler rewrote stt0 and returned conditionally
    unsigned cond = flagged ? (unsigned)std::stoul(t[5]) : 0;
    if (flagged && !ctx) { // without a context switch the handler's flags stay
        static const int stt0w = [] {
            for (size_t i = 0; i < layout::words().size(); ++i)
                if (layout::words()[i].name == std::string("stt0"))
                    return (int)i;
            return -1;
        }();
        base = layout::write(stt0w, base, (uint16_t)vf::unhex(t[4]));
    }
    State want = ctx ? after_context_roundtrip(base) : base;
    want[flat::F_ie] = 1;
    std::string where = std::string("interrupt line ") + (line < 3 ? std::to_string(line) : "vectored") + (ctx ? " with context switch + retic" : " + reti") +
                        (flagged ? (cond ? " (handler sets flags, conditional return)" : " (handler sets flags)") : "");
    if (flagged && ctx && cond && !imodel::cond_pass(c.st, cond))
        vf::klass("conditional retic whose condition fails on the interrupted stream's flags");
    if (!(r.after == want)) {
        std::string d = flat::diff(r.after, want);
        return vf::Result::fail(std::string("C08:irq:") + (ctx ? "ctx:" : "plain:") + d.substr(0, d.find(':')),
                                "after interrupt entry and return the state is not the interrupted stream's state (got vs expected) " + d + " for " + where);
    }
    vf::klass(where);
    vf::note(vf::hash_str(icase::encode(c)), true);
    return vf::Result::pass();
}

ICase build_cntx(vf::Stream& s) {
    ICase c;
    base_state(c, s);
    unsigned kind = (unsigned)s.below(9);
    c.cycles = 2;
    switch (kind) {
    case 6: { // store ; clobber a one-way-saved register ; restore  -> the saved value comes back
        uint16_t v = icase::gen_u16(s);
        bool flags = s.bits(1);
        c.opcode = W("cntx_s()", {});
        c.expansion = flags ? W("mov(Imm16,SttMod)", {-1, 0}) : W("mov_repc(Imm16)", {-1}); // mov #v, stt0 / mov #v, repc
        c.more_code = {v, W("cntx_r()", {})};
        c.cycles = 3;
        c.tag = std::string("cntxclobber ") + (flags ? "flags " : "repc ") + vf::hex(v);
        break;
    }
    case 7:
    case 8: { // a single bank exchange swaps exactly the register pairs its flags name
        unsigned f = (unsigned)s.below(64);
        c.opcode = W("banke(BankFlags)", {(long)f});
        c.cycles = 1;
        c.tag = "bankesingle " + std::to_string(f);
        break;
    }
    case 0:
    case 1:
        c.opcode = W("cntx_s()", {});
        c.expansion = W("cntx_r()", {});
        c.tag = "cntx";
        break;
    case 2:
    case 3: {
        unsigned f = (unsigned)s.below(64);
        c.opcode = c.expansion = W("banke(BankFlags)", {(long)f});
        c.tag = "banke " + std::to_string(f);
        break;
    }
    default: {
        unsigned form = (unsigned)s.below(4);
        uint16_t w;
        if (form == 0)
            w = W("bankr()", {});
        else if (form == 1)
            w = W("bankr(Ar)", {(long)s.below(2)});
        else if (form == 2)
            w = W("bankr(Ar,Arp)", {(long)s.below(2), (long)s.below(4)});
        else
            w = W("bankr(Arp)", {(long)s.below(4)});
        c.opcode = c.expansion = w;
        c.tag = "bankr " + std::to_string(form);
        break;
    }
    }
    return c;
}

vf::Result check_cntx(const ICase& c, const std::vector<std::string>& t) {
    icase::IResult r = sut().exec(c);
    if (r.outcome != 0) {
        vf::note(0, false);
        return vf::Result::pass();
    }
    if (t[0] == "cntxclobber" && t.size() >= 3) {
        State want = after_context_roundtrip(c.st);
        want[flat::F_pc] = c.st[flat::F_pc] + 4;
        uint16_t v = (uint16_t)vf::unhex(t[2]);
        if (t[1] == "repc" && c.st[flat::F_crep]) {
            want[flat::F_repc] = v; // repc is not part of the context when crep = 1
            vf::klass("clobbered repc survives (crep = 1)");
        } else
            vf::klass(t[1] == "repc" ? "clobbered repc restored from its save slot" : "clobbered flags restored from their save slots");
        if (!(r.after == want)) {
            std::string d = flat::diff(r.after, want);
            return vf::Result::fail("C08:cntxclobber:" + t[1] + ":" + d.substr(0, d.find(':')),
                                    "store ; overwrite " + t[1] + " ; restore does not bring the saved value back (got vs expected) " + d);
        }
        vf::note(vf::hash_str(icase::encode(c)), true);
        return vf::Result::pass();
    }
    if (t[0] == "bankesingle" && t.size() >= 2) {
        unsigned f = std::stoul(t[1]);
        State want = c.st;
        want[flat::F_pc] = c.st[flat::F_pc] + 1;
        auto sw = [&](int a, int b) { std::swap(want[a], want[b]); };
        if (f & 1) {
            sw(flat::F_stepi, flat::F_stepib);
            sw(flat::F_modi, flat::F_modib);
            if (c.st[flat::F_stp16])
                sw(flat::F_stepi0, flat::F_stepi0b);
        }
        if (f & 2)
            sw(flat::F_r + 4, flat::F_r4b);
        if (f & 4)
            sw(flat::F_r + 1, flat::F_r1b);
        if (f & 8)
            sw(flat::F_r + 0, flat::F_r0b);
        if (f & 16)
            sw(flat::F_r + 7, flat::F_r7b);
        if (f & 32) {
            sw(flat::F_stepj, flat::F_stepjb);
            sw(flat::F_modj, flat::F_modjb);
            if (c.st[flat::F_stp16])
                sw(flat::F_stepj0, flat::F_stepj0b);
        }
        if (!(r.after == want)) {
            std::string d = flat::diff(r.after, want);
            return vf::Result::fail("C08:bankesingle:" + d.substr(0, d.find(':')), "banke " + t[1] + " did not exchange exactly the named pairs (got vs expected) " + d);
        }
        vf::klass("single bank exchange");
        vf::note(vf::hash_str(icase::encode(c)), f != 0);
        return vf::Result::pass();
    }
    State want = t[0] == "cntx" ? after_context_roundtrip(c.st) : c.st;
    want[flat::F_pc] = c.st[flat::F_pc] + 2;
    if (!(r.after == want)) {
        std::string d = flat::diff(r.after, want);
        return vf::Result::fail("C08:" + t[0] + ":" + d.substr(0, d.find(':')), t[0] + " applied twice / store+restore is not the identity (got vs expected) " + d);
    }
    // non-trivial: the first half alone changed something
    ICase half = c;
    half.cycles = 1;
    icase::IResult h = sut().exec(half);
    State hs = h.after;
    hs[flat::F_pc] = c.st[flat::F_pc];
    bool moved = !(hs == c.st);
    vf::klass(t[0] + (moved ? " (first half changed the state)" : " (banks equal)"));
    vf::note(vf::hash_str(icase::encode(c)), moved);
    return vf::Result::pass();
}

vf::Result check(const ICase& c) {
    auto t = vf::split_ws(c.tag);
    if (t.empty())
        return vf::Result::pass();
    if (vf::ctx().samples.size() < 8 && (vf::ctx().evaluations % 997) == 3)
        vf::sample(c.tag + " | " + optable::info(c.opcode).form + " op=" + vf::hex(c.opcode) + " x=" + vf::hex(c.expansion) + " pc=" + vf::hex(c.st[flat::F_pc]) +
                   " sp=" + vf::hex(c.st[flat::F_sp]) + " cpc=" + vf::hex(c.st[flat::F_cpc]));
    if (t[0] == "callret" && t.size() >= 6)
        return check_callret(c, t);
    if (t[0] == "pushpop" && t.size() >= 3)
        return check_pushpop(c, t);
    if (t[0] == "irq" && t.size() >= 4)
        return check_irq(c, t);
    if (t[0] == "irqrep" && t.size() >= 2) {
        // differential: the same stream without the request (one instruction less: no reti)
        icase::IResult ra = sut().exec(c);
        ICase q = c;
        q.irq_mask = 0;
        q.cycles = c.cycles - 1;
        icase::IResult rb = sut().exec(q);
        if (ra.outcome != 0 || rb.outcome != 0) {
            vf::note(0, false);
            return vf::Result::pass();
        }
        vf::klass("interrupt requested while a single-instruction repeat starts");
        vf::note(vf::hash_str(icase::encode(c)), true);
        if (!(ra.after == rb.after)) {
            std::string d = flat::diff(ra.after, rb.after);
            return vf::Result::fail("C08:irq:rep:" + d.substr(0, d.find(':')), "a repeat interrupted at its start did not resume as the uninterrupted stream (with vs without the request) " +
                                                                               d + " for rep #" + t[1] + " ; inc a0");
        }
        return vf::Result::pass();
    }
    return check_cntx(c, t);
}

ICase build(uint64_t seed, unsigned kind) {
    vf::Stream s(seed);
    switch (kind % 8) {
    case 0:
    case 1:
        return build_callret(s);
    case 2:
    case 3:
    case 4:
        return build_pushpop(s);
    case 5:
        return build_irq(s);
    default:
        return build_cntx(s);
    }
}

} // namespace

int main(int argc, char** argv) {
    vf::init(argc, argv, "C08");
    for (const PP& pp : kPP)
        for (const char* f : {pp.push_form, pp.pop_form})
            if (optable::find_word(f, {}) < 0)
                vf::add_note(std::string("inconclusive: instruction form not found in the decode table: ") + f);
    for (const char* f : {"call(Address18_16,Address18_2,CondValue)", "callr(RelAddr7,CondValue)", "calla(Axl)", "calla(Ax)", "ret(CondValue)", "rets(Imm8)",
                          "reti(CondValue)", "retic(CondValue)", "cntx_s()", "cntx_r()", "banke(BankFlags)", "bankr()", "bankr(Ar)", "bankr(Ar,Arp)", "bankr(Arp)"})
        if (optable::find_word(f, {}) < 0)
            vf::add_note(std::string("inconclusive: instruction form not found in the decode table: ") + f);
    vf::Property<ICase> p;
    p.name = "inverse_pairs";
    p.gen = [] {
        using namespace rc;
        return gen::map(gen::pair(gen::resize(100, gen::arbitrary<uint64_t>()), vf::range<unsigned>(0, 8)),
                        [](std::pair<uint64_t, unsigned> t) { return build(t.first, t.second); });
    };
    p.check = check;
    p.encode = icase::encode;
    p.decode = icase::decode;
    p.minimise = icase::minimise;
    vf::run(p);
    return vf::finish();
}
