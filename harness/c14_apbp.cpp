// C14 -- APBP mailboxes and semaphores, both directions, on the real Teakra facade.
// Histories of host API calls and DSP-side MMIO accesses; after every op the complete observable APBP
// state (status registers 0x0D6/0x0D8, semaphore/mask registers, host ready/peek/semaphore views) is
// compared with a model written from apbp.md and the property statement, and the interrupt rule
// (required on a rising flag / enabled send, forbidden while the flag stays 0 / disabled send) is checked.
#include "vf.h"

#include "crash.h"
#include "teakra/teakra.h"
#include "teakra/teakra_c.h"

namespace {

enum Kind : int {
    HSend, HRecv, HPeek, HSet, HClear, HMask,       // host API
    DReply, DCmdRead, DReplyPeek, DSet, DAck, DMask, DSetCI, // DSP side through MMIO
    DStatusW,                                                 // a write to a (read-only) status register: no effect on any flag
    HReenter, // from now on the host's semaphore handler calls back into the API: 1 acknowledge all, 2 mask all, 3 acknowledge v, 0 nothing
    NKIND
};
const char* kKindName[] = {"hsend", "hrecv", "hpeek", "hset", "hclear", "hmask",
                           "dreply", "dcmdread", "dreplypeek", "dset", "dack", "dmask", "dsetci", "dstatusw", "hreenter"};
struct Op {
    int kind = HSend;
    uint16_t ch = 0;  // channel 0..2
    uint16_t v = 0;   // value / bits
    uint16_t path = 0; // DSP side: 0 = host MMIO accessor, 1 = DSP data path at mmio base, 2 = mirror (+0x800*k)
};
using Case = std::vector<Op>;

struct Dir {
    uint16_t data[3] = {0, 0, 0};
    bool ready[3] = {false, false, false};
    bool ci[3] = {false, false, false}; // interrupt disabled
    uint16_t sem = 0, mask = 0;
    bool flag() const {
        return (sem & ~mask) != 0;
    }
};

struct Sys {
    Teakra::Teakra t{Teakra::UserConfig{}};
    uint64_t data_irq[3] = {0, 0, 0};
    uint64_t sem_irq = 0;
    Sys() {
        for (int i = 0; i < 3; ++i)
            t.SetRecvDataHandler(i, [this, i] { ++data_irq[i]; });
        t.SetSemaphoreHandler([this] {
            ++sem_irq;
            // a handler that services the semaphore right away, as host code does ("host callbacks may call back into the API")
            if (sem_action == 1)
                t.ClearSemaphore(0xFFFF);
            else if (sem_action == 2)
                t.MaskSemaphore(0xFFFF);
            else if (sem_action == 3)
                t.ClearSemaphore(sem_action_bits);
        });
    }
    int sem_action = 0;
    uint16_t sem_action_bits = 0;
    void reinit() {
        t.Reset();
        // state that Reset() does not (yet) cover is cleared explicitly so that cases are independent
        t.MMIOWrite(0x0D4, 0);
        t.MMIOWrite(0x0D6, 0); // (backing storage of the status cells, see above)
        t.MMIOWrite(0x0D8, 0);
        t.MMIOWrite(0x202, 0xFFFF);
        for (auto& d : data_irq)
            d = 0;
        sem_irq = 0;
        sem_action = 0;
    }
    uint16_t rd(uint16_t off, uint16_t path) {
        switch (path % 3) {
        case 0:
            return t.MMIORead(off);
        case 1:
            return t.DataRead(0x8000 + off);
        default:
            return t.MMIORead(off + 0x800 * (1 + path / 3 % 31));
        }
    }
    void wr(uint16_t off, uint16_t v, uint16_t path) {
        switch (path % 3) {
        case 0:
            t.MMIOWrite(off, v);
            break;
        case 1:
            t.DataWrite(0x8000 + off, v);
            break;
        default:
            t.MMIOWrite(off + 0x800 * (1 + path / 3 % 31), v);
            break;
        }
    }
};

Sys& sys() {
    static Sys* s = new Sys;
    return *s;
}

std::string encode(const Case& c) {
    std::string s;
    for (auto& op : c)
        s += std::string(kKindName[op.kind]) + " " + vf::hex(op.ch) + " " + vf::hex(op.v) + " " + vf::hex(op.path) + "\n";
    return s;
}
Case decode(const std::string& text) {
    Case c;
    for (auto& l : vf::lines(text)) {
        auto t = vf::split_ws(l);
        if (t.size() < 4)
            continue;
        Op op;
        for (int k = 0; k < NKIND; ++k)
            if (t[0] == kKindName[k])
                op.kind = k;
        op.ch = (uint16_t)vf::unhex(t[1]) % 3;
        op.v = (uint16_t)vf::unhex(t[2]);
        op.path = (uint16_t)vf::unhex(t[3]);
        c.push_back(op);
    }
    return c;
}

rc::Gen<Op> genOp() {
    using namespace rc;
    auto bits = gen::weightedOneOf<uint16_t>({{2, gen::element<uint16_t>(0, 0xFFFF, 1, 0x8000, 2, 4, 0x0006, 0x00FF)},
                                              {2, gen::map(vf::range<int>(0, 16), [](int b) { return (uint16_t)(1u << b); })},
                                              {1, vf::u16b()}});
    auto kind = gen::weightedElement<int>({{4, HSend}, {2, HRecv}, {1, HPeek}, {3, HSet}, {3, HClear}, {3, HMask},
                                           {4, DReply}, {2, DCmdRead}, {1, DReplyPeek}, {3, DSet}, {3, DAck}, {3, DMask}, {2, DSetCI}, {2, DStatusW}, {1, HReenter}});
    return gen::map(gen::tuple(kind, vf::range<int>(0, 3), bits, vf::u16b(), vf::range<int>(0, 96)),
                    [](std::tuple<int, int, uint16_t, uint16_t, int> t) {
                        Op op;
                        op.kind = std::get<0>(t);
                        op.ch = (uint16_t)std::get<1>(t);
                        bool is_bits = op.kind == HSet || op.kind == HClear || op.kind == HMask || op.kind == DSet || op.kind == DAck ||
                                       op.kind == DMask || op.kind == DStatusW || op.kind == HReenter;
                        op.v = is_bits ? std::get<2>(t) : std::get<3>(t);
                        if (op.kind == DSetCI)
                            op.v = std::get<3>(t) & 0x3104; // CI0 (8), CI1 (12), CI2 (13), END (2)
                        op.path = (uint16_t)std::get<4>(t);
                        return op;
                    });
}

vf::Result check(const Case& cs) {
    Sys& s = sys();
    s.reinit();
    Dir c2d, d2c; // cpu->dsp (CMD), dsp->cpu (REPLY)
    std::string trace;
    bool saw_send = false, saw_sem = false;
    unsigned channels_used = 0;
    auto fail = [&](const std::string& sig, const std::string& what, size_t i) {
        return vf::Result::fail(sig, what + " at op " + std::to_string(i) + " (" + trace + ")");
    };
    for (size_t i = 0; i < cs.size(); ++i) {
        const Op& op = cs[i];
        const int ch = op.ch % 3;
        std::string nm = kKindName[op.kind];
        trace += nm + "(" + (op.kind <= HPeek || op.kind == DReply || op.kind == DCmdRead || op.kind == DReplyPeek ? std::to_string(ch) + "," : "") +
                 vf::hex(op.v) + ") ";
        // observe DSP-side interrupt (ICU IRQ 14) raised by this op only
        s.t.MMIOWrite(0x202, 0x4000);
        uint64_t d_irq0[3] = {s.data_irq[0], s.data_irq[1], s.data_irq[2]};
        uint64_t sem_irq0 = s.sem_irq;
        bool c2d_flag0 = c2d.flag(), d2c_flag0 = d2c.flag();
        bool expect_dsp_irq = false, forbid_dsp_irq = true; // for IRQ 14
        int expect_host_data_irq = -1;                      // channel whose handler must run exactly once
        bool host_sem_required = false, host_sem_forbidden = true;
        try {
            switch (op.kind) {
            case HSend:
                if (c2d.ready[ch])
                    vf::klass("overwrite before read (cpu->dsp)");
                s.t.SendData(ch, op.v);
                c2d.data[ch] = op.v;
                c2d.ready[ch] = true;
                if (!c2d.ci[ch]) {
                    expect_dsp_irq = true;
                    forbid_dsp_irq = false;
                } else
                    vf::klass("send with interrupt disabled");
                saw_send = true;
                channels_used |= 1u << ch;
                break;
            case HRecv: {
                if (!d2c.ready[ch])
                    vf::klass("recv without pending data");
                uint16_t v = s.t.RecvData(ch);
                if (v != d2c.data[ch])
                    return fail("C14:recv:value:d2c", "host RecvData returned " + vf::hex(v) + " but the last value written is " + vf::hex(d2c.data[ch]), i);
                d2c.ready[ch] = false;
                break;
            }
            case HPeek: {
                uint16_t v = s.t.PeekRecvData(ch);
                if (v != d2c.data[ch])
                    return fail("C14:peek:value:d2c", "host PeekRecvData returned " + vf::hex(v) + " but the last value written is " + vf::hex(d2c.data[ch]), i);
                if (d2c.ready[ch])
                    vf::klass("peek while data pending");
                break;
            }
            case HSet:
                s.t.SetSemaphore(op.v);
                c2d.sem |= op.v;
                saw_sem = true;
                break;
            case HClear:
                s.t.ClearSemaphore(op.v);
                d2c.sem &= ~op.v;
                saw_sem = true;
                break;
            case HMask:
                if (d2c.sem)
                    vf::klass("mask change while semaphore non-zero (dsp->cpu)");
                s.t.MaskSemaphore(op.v);
                d2c.mask = op.v;
                saw_sem = true;
                break;
            case DReply:
                if (d2c.ready[ch])
                    vf::klass("overwrite before read (dsp->cpu)");
                s.wr(0x0C0 + 4 * ch, op.v, op.path);
                d2c.data[ch] = op.v;
                d2c.ready[ch] = true;
                expect_host_data_irq = ch;
                saw_send = true;
                channels_used |= 1u << ch;
                break;
            case DCmdRead: {
                if (!c2d.ready[ch])
                    vf::klass("recv without pending data");
                uint16_t v = s.rd(0x0C2 + 4 * ch, op.path);
                if (v != c2d.data[ch])
                    return fail("C14:recv:value:c2d", "DSP read of CMD" + std::to_string(ch) + " returned " + vf::hex(v) +
                                                          " but the last value written is " + vf::hex(c2d.data[ch]),
                                i);
                c2d.ready[ch] = false;
                break;
            }
            case DReplyPeek: {
                uint16_t v = s.rd(0x0C0 + 4 * ch, op.path);
                if (v != d2c.data[ch])
                    return fail("C14:peek:value:reply", "DSP read-back of REPLY" + std::to_string(ch) + " returned " + vf::hex(v) + " expected " +
                                                            vf::hex(d2c.data[ch]),
                                i);
                break;
            }
            case DSet:
                s.wr(0x0CC, op.v, op.path);
                d2c.sem |= op.v;
                saw_sem = true;
                break;
            case DAck:
                s.wr(0x0D0, op.v, op.path);
                c2d.sem &= ~op.v;
                saw_sem = true;
                break;
            case DMask:
                if (c2d.sem)
                    vf::klass("mask change while semaphore non-zero (cpu->dsp)");
                s.wr(0x0CE, op.v, op.path);
                c2d.mask = op.v;
                saw_sem = true;
                break;
            case HReenter:
                s.sem_action = op.ch % 4;
                s.sem_action_bits = op.v;
                vf::klass("host semaphore handler re-enters the API");
                break;
            case DStatusW: // the status flags are live views of the mailbox / semaphore state: writing them changes nothing
                s.wr(op.ch & 1 ? 0x0D8 : 0x0D6, op.v, op.path);
                vf::klass("write to a status register");
                break;
            case DSetCI:
                s.wr(0x0D4, op.v, op.path);
                c2d.ci[0] = (op.v >> 8) & 1;
                c2d.ci[1] = (op.v >> 12) & 1;
                c2d.ci[2] = (op.v >> 13) & 1;
                break;
            }
        } catch (const TeakraVerifAssertFailure& e) {
            return fail(std::string("C14:assert:") + e.expression, std::string("assertion ") + e.expression + " on an in-contract operation", i);
        }
        // --- interrupt rules ---------------------------------------------------------------
        bool c2d_flag1 = c2d.flag(), d2c_flag1 = d2c.flag();
        if (!c2d_flag0 && c2d_flag1) {
            expect_dsp_irq = true;
            forbid_dsp_irq = false;
            vf::klass(std::string("flag rises cpu->dsp by ") + nm);
        } else if (c2d_flag1) {
            forbid_dsp_irq = false; // stays 1 or was already 1: permitted, not required
        }
        if (!d2c_flag0 && d2c_flag1) {
            host_sem_required = true;
            host_sem_forbidden = false;
            vf::klass(std::string("flag rises dsp->cpu by ") + nm);
        } else if (d2c_flag1) {
            host_sem_forbidden = false;
        }
        if ((c2d_flag0 && !c2d_flag1) || (d2c_flag0 && !d2c_flag1))
            vf::klass(std::string("flag falls by ") + nm);
        bool dsp_irq = (s.t.MMIORead(0x200) >> 14) & 1;
        if (expect_dsp_irq && !dsp_irq)
            return fail("C14:irq:missing:dsp:" + nm, "no DSP-side APBP interrupt (ICU IRQ 14) although one is required", i);
        if (forbid_dsp_irq && dsp_irq)
            return fail("C14:irq:spurious:dsp:" + nm, "DSP-side APBP interrupt (ICU IRQ 14) raised although none is allowed", i);
        for (int k = 0; k < 3; ++k) {
            uint64_t n = s.data_irq[k] - d_irq0[k];
            if (k == expect_host_data_irq ? n != 1 : n != 0)
                return fail("C14:irq:host-data:" + nm, "host data handler " + std::to_string(k) + " ran " + std::to_string(n) + " times", i);
        }
        uint64_t nsem = s.sem_irq - sem_irq0;
        if (host_sem_required && nsem == 0)
            return fail("C14:irq:missing:host-sem:" + nm, "host semaphore handler did not run although the signal flag rose", i);
        if (host_sem_forbidden && nsem != 0)
            return fail("C14:irq:spurious:host-sem:" + nm, "host semaphore handler ran although the signal flag stayed 0", i);
        // what the re-entrant handler did, once per run (the rules above were judged on the state the operation itself produced)
        if (nsem && s.sem_action) {
            if (s.sem_action == 1)
                d2c.sem = 0;
            else if (s.sem_action == 2)
                d2c.mask = 0xFFFF;
            else
                d2c.sem &= ~s.sem_action_bits;
            vf::klass("handler re-entered: " + std::string(s.sem_action == 2 ? "mask all" : "acknowledge") + " during " + nm);
        }
        // --- full observable state ----------------------------------------------------------
        uint16_t d6 = s.t.MMIORead(0x0D6), d8 = s.t.MMIORead(0x0D8);
        bool S = (d6 >> 9) & 1;
        if (S != c2d_flag1)
            return fail("C14:flag:stale:" + nm, "signal flag (0x0D6 bit 9) is " + std::to_string(S) + " but (semaphore " + vf::hex(c2d.sem) +
                                                    " & ~mask " + vf::hex(c2d.mask) + ") != 0 is " + std::to_string(c2d_flag1),
                        i);
        const int rbit6[3] = {5, 6, 7}, cbit6[3] = {8, 12, 13}, rbit8[3] = {10, 11, 12}, cbit8[3] = {13, 14, 15};
        for (int k = 0; k < 3; ++k) {
            bool r6 = (d6 >> rbit6[k]) & 1, c6 = (d6 >> cbit6[k]) & 1, r8 = (d8 >> rbit8[k]) & 1, c8 = (d8 >> cbit8[k]) & 1;
            if (r6 != d2c.ready[k] || r8 != d2c.ready[k] || s.t.RecvDataIsReady(k) != d2c.ready[k])
                return fail("C14:ready:reply:" + nm, "REPLY" + std::to_string(k) + " ready: model " + std::to_string(d2c.ready[k]) + ", 0x0D6 " +
                                                         std::to_string(r6) + ", 0x0D8 " + std::to_string(r8) + ", host " +
                                                         std::to_string(s.t.RecvDataIsReady(k)),
                            i);
            if (c6 != c2d.ready[k] || c8 != c2d.ready[k] || s.t.SendDataIsEmpty(k) == c2d.ready[k])
                return fail("C14:ready:cmd:" + nm, "CMD" + std::to_string(k) + " ready: model " + std::to_string(c2d.ready[k]) + ", 0x0D6 " +
                                                       std::to_string(c6) + ", 0x0D8 " + std::to_string(c8) + ", host empty " +
                                                       std::to_string(s.t.SendDataIsEmpty(k)),
                            i);
            if (s.t.PeekRecvData(k) != d2c.data[k] || s.t.MMIORead(0x0C0 + 4 * k) != d2c.data[k])
                return fail("C14:data:reply:" + nm, "REPLY" + std::to_string(k) + " holds " + vf::hex(s.t.PeekRecvData(k)) + " expected " +
                                                        vf::hex(d2c.data[k]),
                            i);
        }
        if (s.t.GetSemaphore() != d2c.sem || s.t.MMIORead(0x0CC) != d2c.sem)
            return fail("C14:sem:d2c:" + nm, "dsp->cpu semaphore " + vf::hex(s.t.GetSemaphore()) + " expected " + vf::hex(d2c.sem), i);
        if (s.t.MMIORead(0x0D2) != c2d.sem)
            return fail("C14:sem:c2d:" + nm, "cpu->dsp semaphore " + vf::hex(s.t.MMIORead(0x0D2)) + " expected " + vf::hex(c2d.sem), i);
        if (s.t.MMIORead(0x0CE) != c2d.mask)
            return fail("C14:mask:c2d:" + nm, "cpu->dsp mask reads " + vf::hex(s.t.MMIORead(0x0CE)) + " expected " + vf::hex(c2d.mask), i);
        uint16_t d4 = s.t.MMIORead(0x0D4);
        if (((d4 >> 8) & 1) != c2d.ci[0] || ((d4 >> 12) & 1) != c2d.ci[1] || ((d4 >> 13) & 1) != c2d.ci[2])
            return fail("C14:ci:" + nm, "interrupt-disable bits read " + vf::hex(d4), i);
    }
    if (channels_used == 7)
        vf::klass("all three channels used");
    bool nontrivial = saw_send && saw_sem;
    vf::note(vf::hash_str(encode(cs)), nontrivial);
    if (nontrivial && cs.size() <= 8)
        vf::sample(trace);
    return vf::Result::pass();
}

// ---- c_binding: the host side of the handshake through the C binding -------------------------------------------------------
// The same generated history of host calls and DSP-side register accesses drives a C++ facade instance and a C-binding
// context; every returned value, every handler invocation and the DSP-side registers must agree after every operation
// ("the host API" of the property is both of them).
struct BOp {
    unsigned kind = 0; // see apply below
    unsigned ch = 0;
    uint16_t v = 0;
};
using BCase = std::vector<BOp>;
std::string bencode(const BCase& c) {
    std::string s;
    for (auto& op : c)
        s += "b " + vf::hex(op.kind) + " " + vf::hex(op.ch) + " " + vf::hex(op.v) + "\n";
    return s;
}
BCase bdecode(const std::string& text) {
    BCase c;
    for (auto& l : vf::lines(text)) {
        auto t = vf::split_ws(l);
        if (t.size() < 4 || t[0] != "b")
            continue;
        c.push_back({(unsigned)vf::unhex(t[1]) % 16, (unsigned)vf::unhex(t[2]) % 3, (uint16_t)vf::unhex(t[3])});
    }
    return c;
}
struct Counters {
    unsigned data[3] = {0, 0, 0}, sem = 0;
};
vf::Result bcheck(const BCase& cs) {
    static Teakra::Teakra* cpp = new Teakra::Teakra(Teakra::UserConfig{});
    static TeakraContext* cb = Teakra_Create();
    static Counters kc, kb;
    static bool installed = false;
    if (!installed) {
        installed = true;
        for (int i = 0; i < 3; ++i) {
            cpp->SetRecvDataHandler(i, [i] { ++kc.data[i]; });
            Teakra_SetRecvDataHandler(cb, (uint8_t)i, [](void* u) { ++*(unsigned*)u; }, &kb.data[i]);
        }
        cpp->SetSemaphoreHandler([] { ++kc.sem; });
        Teakra_SetSemaphoreHandler(cb, [](void* u) { ++*(unsigned*)u; }, &kb.sem);
    }
    cpp->Reset();
    Teakra_Reset(cb);
    kc = Counters();
    kb = Counters();
    std::string trace;
    static const uint16_t kDspRegs[] = {0x0C0, 0x0C4, 0x0C8, 0x0CC, 0x0CE, 0x0D0, 0x0D2, 0x0D4, 0x0D6, 0x0D8, 0x200};
    bool saw_send = false, saw_sem = false;
    for (size_t i = 0; i < cs.size(); ++i) {
        const BOp& op = cs[i];
        uint32_t ra = 0, rb = 0;
        const uint8_t ch = (uint8_t)op.ch;
        switch (op.kind) {
        case 0:
            cpp->SendData(ch, op.v), Teakra_SendData(cb, ch, op.v), saw_send = true, trace += "send" + std::to_string(ch) + " ";
            break;
        case 1:
            ra = cpp->RecvData(ch), rb = Teakra_RecvData(cb, ch), trace += "recv" + std::to_string(ch) + " ";
            break;
        case 2:
            ra = cpp->PeekRecvData(ch), rb = Teakra_PeekRecvData(cb, ch), trace += "peek" + std::to_string(ch) + " ";
            break;
        case 3:
            ra = cpp->SendDataIsEmpty(ch), rb = Teakra_SendDataIsEmpty(cb, ch) != 0, trace += "empty?" + std::to_string(ch) + " ";
            break;
        case 4:
            ra = cpp->RecvDataIsReady(ch), rb = Teakra_RecvDataIsReady(cb, ch) != 0, trace += "ready?" + std::to_string(ch) + " ";
            break;
        case 5:
            cpp->SetSemaphore(op.v), Teakra_SetSemaphore(cb, op.v), saw_sem = true, trace += "set(" + vf::hex(op.v) + ") ";
            break;
        case 6:
            cpp->ClearSemaphore(op.v), Teakra_ClearSemaphore(cb, op.v), saw_sem = true, trace += "clear(" + vf::hex(op.v) + ") ";
            break;
        case 7:
            cpp->MaskSemaphore(op.v), Teakra_MaskSemaphore(cb, op.v), saw_sem = true, trace += "mask(" + vf::hex(op.v) + ") ";
            break;
        case 8:
            ra = cpp->GetSemaphore(), rb = Teakra_GetSemaphore(cb), trace += "sem? ";
            break;
        case 9: // DSP side writes a reply / semaphore / mask / acknowledge / interrupt-disable register
        case 10: {
            static const uint16_t w[] = {0x0C0, 0x0C4, 0x0C8, 0x0CC, 0x0CE, 0x0D0, 0x0D4};
            uint16_t off = w[(op.ch + 3 * (op.v & 3)) % 7];
            cpp->MMIOWrite(off, op.v), Teakra_MMIOWrite(cb, off, op.v), trace += "w[" + vf::hex(off) + "]=" + vf::hex(op.v) + " ";
            break;
        }
        case 11: // DSP side reads CMDi (clears the ready flag)
            ra = cpp->MMIORead((uint16_t)(0x0C2 + 4 * ch)), rb = Teakra_MMIORead(cb, (uint16_t)(0x0C2 + 4 * ch)), trace += "cmd" + std::to_string(ch) + " ";
            break;
        case 12: // the DSP data path (window at its default base)
            cpp->DataWrite((uint16_t)(0x80C0 + 4 * ch), op.v, false), Teakra_DataWrite(cb, (uint16_t)(0x80C0 + 4 * ch), op.v, false), trace += "dw ";
            break;
        case 13:
            ra = cpp->DataRead((uint16_t)(0x80D6 + 2 * (op.v & 1)), false), rb = Teakra_DataRead(cb, (uint16_t)(0x80D6 + 2 * (op.v & 1)), false), trace += "dr ";
            break;
        case 14:
            cpp->ProgramWrite(op.v, (uint16_t)~op.v), Teakra_ProgramWrite(cb, op.v, (uint16_t)~op.v);
            ra = cpp->ProgramRead(op.v), rb = Teakra_ProgramRead(cb, op.v), trace += "prog ";
            break;
        default:
            cpp->DataWriteA32(0x10000u + op.v, op.v), Teakra_DataWriteA32(cb, 0x10000u + op.v, op.v);
            ra = cpp->DataReadA32(0x10000u + op.v), rb = Teakra_DataReadA32(cb, 0x10000u + op.v), trace += "a32 ";
            break;
        }
        auto fail = [&](const std::string& sig, const std::string& what) {
            return vf::Result::fail(sig, what + " at op " + std::to_string(i) + " (" + trace + ")");
        };
        if (ra != rb)
            return fail("C14:cbinding:value:" + std::to_string(op.kind), "the C binding returned " + vf::hex(rb) + " where the C++ API returned " + vf::hex(ra));
        for (int k = 0; k < 3; ++k)
            if (kc.data[k] != kb.data[k])
                return fail("C14:cbinding:handler:data" + std::to_string(k), "data handler " + std::to_string(k) + " ran " + std::to_string(kb.data[k]) + " time(s) through the C binding, " +
                                                                               std::to_string(kc.data[k]) + " through the C++ API");
        if (kc.sem != kb.sem)
            return fail("C14:cbinding:handler:sem", "semaphore handler ran " + std::to_string(kb.sem) + " time(s) through the C binding, " + std::to_string(kc.sem) + " through the C++ API");
        for (uint16_t off : kDspRegs)
            if (cpp->MMIORead(off) != Teakra_MMIORead(cb, off))
                return fail("C14:cbinding:register:" + vf::hex(off), "DSP-side register " + vf::hex(off) + " reads " + vf::hex(Teakra_MMIORead(cb, off)) + " on the C-binding instance, " +
                                                                       vf::hex(cpp->MMIORead(off)) + " on the C++ one");
        for (int k = 0; k < 3; ++k)
            if (cpp->SendDataIsEmpty((uint8_t)k) != (Teakra_SendDataIsEmpty(cb, (uint8_t)k) != 0) || cpp->RecvDataIsReady((uint8_t)k) != (Teakra_RecvDataIsReady(cb, (uint8_t)k) != 0))
                return fail("C14:cbinding:flags:" + std::to_string(k), "ready / empty flags of channel " + std::to_string(k) + " differ between the two host APIs");
        if (cpp->GetSemaphore() != Teakra_GetSemaphore(cb))
            return fail("C14:cbinding:semaphore", "GetSemaphore differs between the two host APIs");
    }
    vf::klass("c_binding: same history through the C binding and the C++ API");
    vf::note(vf::hash_str(bencode(cs)) ^ 0xCB, saw_send && saw_sem);
    return vf::Result::pass();
}
rc::Gen<BCase> genBCase() {
    using namespace rc;
    auto opGen = gen::map(gen::tuple(vf::range<unsigned>(0, 16), vf::range<unsigned>(0, 3), vf::u16b()), [](std::tuple<unsigned, unsigned, uint16_t> t) {
        return BOp{std::get<0>(t), std::get<1>(t), std::get<2>(t)};
    });
    return gen::container<BCase>(opGen);
}

} // namespace

int main(int argc, char** argv) {
    vf::init(argc, argv, "C14");
    vf::Property<Case> p;
    p.name = "apbp_history";
    p.gen = [] { return rc::gen::container<Case>(genOp()); };
    p.check = check;
    p.encode = encode;
    p.decode = decode;
    p.max_size = 60;
    p.share = 0.85;
    vf::run(p);
    vf::Property<BCase> b;
    b.name = "c_binding";
    b.gen = [] { return genBCase(); };
    b.check = bcheck;
    b.encode = bencode;
    b.decode = bdecode;
    b.max_size = 60;
    b.share = 0.15;
    vf::run(b);
    return vf::finish();
}
