#!/usr/bin/env python3
"""gen_recorder.py <decoder.h> <out.h>: one variadic member template per handler name used in the decode table,
so that the repository's own GetDecodeTable<V>() can be instantiated with a visitor that records which
handler (name + operand types + operand values) a word decodes to."""
import re, sys
src = "\n".join(l for l in open(sys.argv[1]).read().splitlines() if not l.lstrip().startswith("#define"))
names = sorted(set(re.findall(r"\bINST\(\s*([A-Za-z_][A-Za-z0-9_]*)\s*,", src)))
out = ["// generated from decoder.h by tools/gen_recorder.py -- do not edit", "#pragma once",
       "#define VERIF_RECORDER_HANDLERS(X) \\"]
for n in names:
    out.append(f"    X({n}) \\")
out.append("")
out.append(f"// {len(names)} handler names")
# table entries in file order (= index in GetDecodeTable's vector): pattern and Unused<> bit mask, read from the text
body = "\n".join(re.sub(r"//.*", "", l) for l in src.splitlines())
entries = re.findall(r"\bINST\(([^()]*)\)", body)
out.append("#define VERIF_TABLE_TEXT_ENTRIES { \\")
for e in entries:
    parts = [x.strip() for x in e.split(",")]
    name, pattern = parts[0], parts[1]
    unused = 0
    for k in re.findall(r"Unused<\s*(\d+)\s*>", e):
        unused |= 1 << int(k)
    out.append(f'    {{"{name}", {pattern}, 0x{unused:04X}}}, \\')
out.append("}")
open(sys.argv[2], "w").write("\n".join(out) + "\n")
