#!/usr/bin/env python3
"""trymut.py <prop[,prop]> <file-relative-to-repo> <old> <new> [--tests]
Apply a one-site textual mutation in the scratch worktree /tmp/mut, run the quick check(s) against it, revert."""
import os, subprocess, sys
props, rel, old, new = sys.argv[1:5]
M = os.environ.get("MUTDIR", "/tmp/mut")
if not os.path.isdir(M):
    subprocess.check_call(["git", "-C", "/repo", "worktree", "add", "-q", "--detach", M, "HEAD"])
subprocess.check_call(["git", "-C", M, "checkout", "-q", "--detach", subprocess.check_output(["git", "-C", "/repo", "rev-parse", "HEAD"], text=True).strip()])
subprocess.check_call(["git", "-C", M, "checkout", "--", "."])
p = os.path.join(M, rel)
s = open(p).read()
if s.count(old) != 1:
    sys.exit(f"pattern occurs {s.count(old)} times")
open(p, "w").write(s.replace(old, new))
try:
    if "--tests" in sys.argv:
        b = M + "_b"
        subprocess.check_call(f"cmake -G Ninja -S {M} -B {b} -DCMAKE_BUILD_TYPE=Release >/dev/null && cmake --build {b} 2>&1 | tail -2 && {b}/tests/teakra_tests | tail -2", shell=True)
    env = dict(os.environ, VERIF_REPO=M)
    for pr in props.split(","):
        r = subprocess.run(["/verif/check", pr, "--tier", "quick"], env=env, capture_output=True, text=True)
        out = [l for l in r.stdout.splitlines() if l.startswith(("VIOLATION", "  signature", "  detail", "[", "ERROR", "KNOWN"))]
        print(f"== {pr} rc={r.returncode}: " + ("CAUGHT" if r.returncode == 1 else "MISSED" if r.returncode == 0 else "BROKEN"))
        print("\n".join(out[:8]))
        if r.returncode not in (0, 1):
            print(r.stderr[-1500:])
finally:
    subprocess.check_call(["git", "-C", M, "checkout", "--", "."])
