#!/usr/bin/env python3
"""seed_run.py <seed-id> <prop[,prop..]> [--tier quick|thorough]
Apply a filed seeded change (/verif/seeded/<seed-id>/patch.diff) to a scratch worktree of /repo, run our check(s) against
it through VERIF_REPO, undo, and record the verdicts in the seed's meta.json (checks_quick)."""
import json, os, subprocess, sys
sid, props = sys.argv[1:3]
tier = sys.argv[4] if len(sys.argv) > 4 and sys.argv[3] == "--tier" else "quick"
W = os.environ.get("SEEDCHK_DIR", "/tmp/seedrun")
d = os.path.join("/verif/seeded", sid)
head = subprocess.check_output(["git", "-C", "/repo", "rev-parse", "HEAD"], text=True).strip()
def sh(cmd):
    return subprocess.run(cmd, shell=True, text=True, capture_output=True)
if not os.path.isdir(W):
    subprocess.check_call(["git", "-C", "/repo", "worktree", "add", "-q", "--detach", W, "HEAD"])
sh(f"git -C {W} checkout -q --detach {head} && git -C {W} checkout -- . && git -C {W} clean -fdq")
r = sh(f"git -C {W} apply {d}/patch.diff")
assert r.returncode == 0, r.stderr
meta = json.load(open(os.path.join(d, "meta.json")))
checks = meta.setdefault("checks_" + tier, {})
env = dict(os.environ, VERIF_REPO=W)
for pr in props.split(","):
    r = subprocess.run(["/verif/check", pr, "--tier", tier], env=env, capture_output=True, text=True)
    lines = [l for l in r.stdout.splitlines() if l.startswith(("VIOLATION", "  signature", "  detail", "["))]
    verdict = "caught" if r.returncode == 1 else "missed" if r.returncode == 0 else "broken"
    checks[pr] = {"rc": r.returncode, "verdict": verdict, "output": lines[:6]}
    print(sid, pr, verdict, (lines[1].strip() if len(lines) > 1 else lines[-1] if lines else "")[:200])
sh(f"git -C {W} checkout -- .")
json.dump(meta, open(os.path.join(d, "meta.json"), "w"), indent=1)
if not os.environ.get("SEEDCHK_KEEP"):
    sh(f"git -C /repo worktree remove --force {W}")
