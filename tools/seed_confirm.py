#!/usr/bin/env python3
"""seed_confirm.py <agent-out-dir> <seed-id> <prop[,prop..]>
Confirm a seeded change independently (applies, compiles, unit tests pass, demo passes without / fails with the change),
run our quick check(s) against it, and file it under /verif/seeded/<seed-id>/."""
import json, os, shutil, subprocess, sys
src, sid, props = sys.argv[1:4]
W = os.environ.get("SEEDCHK_DIR", "/tmp/seedchk")
BASE_B = W + "_base_b"
head = subprocess.check_output(["git", "-C", "/repo", "rev-parse", "HEAD"], text=True).strip()
def sh(cmd, **kw):
    return subprocess.run(cmd, shell=True, text=True, capture_output=True, **kw)
if not os.path.isdir(W):
    subprocess.check_call(["git", "-C", "/repo", "worktree", "add", "-q", "--detach", W, "HEAD"])
sh(f"git -C {W} checkout -q --detach {head} && git -C {W} checkout -- . && git -C {W} clean -fdq")
stamp = os.path.join(BASE_B, ".head")
if not os.path.exists(stamp) or open(stamp).read() != head:
    shutil.rmtree(BASE_B, ignore_errors=True)
    r = sh(f"cmake -G Ninja -S {W} -B {BASE_B} -DCMAKE_BUILD_TYPE=Release && cmake --build {BASE_B}")
    assert r.returncode == 0, r.stdout[-2000:] + r.stderr[-2000:]
    open(stamp, "w").write(head)
inc = f"-I{W}/include -I{W}/src -I{W}/include/teakra/impl"
demo_src = os.path.join(src, "demo.cpp")
# some demos include project headers relative to their own location (../../src/...): compile a copy placed the same way
# inside the confirmation worktree, so that it sees this tree's headers
os.makedirs(os.path.join(W, "out", "x"), exist_ok=True)
demo = os.path.join(W, "out", "x", "demo.cpp")
shutil.copy(demo_src, demo)
res = {}
r = sh(f"g++ -std=c++17 -O1 {inc} {demo} {BASE_B}/src/libteakra.a -lpthread -o {W}_demo_base && {W}_demo_base")
res["demo_unchanged_rc"] = r.returncode
r = sh(f"git -C {W} apply {os.path.join(src, 'patch.diff')}")
assert r.returncode == 0, "patch does not apply: " + r.stderr
B = W + "_b"
shutil.rmtree(B, ignore_errors=True)
r = sh(f"cmake -G Ninja -S {W} -B {B} -DCMAKE_BUILD_TYPE=Release && cmake --build {B}")
res["builds"] = r.returncode == 0
r = sh(f"{B}/tests/teakra_tests")
res["unit_tests_rc"] = r.returncode
res["unit_tests_tail"] = r.stdout.strip().splitlines()[-1] if r.stdout.strip() else ""
r = sh(f"g++ -std=c++17 -O1 {inc} {demo} {B}/src/libteakra.a -lpthread -o {W}_demo_mut && {W}_demo_mut")
res["demo_changed_rc"] = r.returncode
res["demo_changed_out"] = (r.stdout + r.stderr).strip()[:400]
ok = res["demo_unchanged_rc"] == 0 and res["builds"] and res["unit_tests_rc"] == 0 and res["demo_changed_rc"] != 0
res["confirmed"] = ok
checks = {}
if ok:
    env = dict(os.environ, VERIF_REPO=W)
    for pr in props.split(","):
        r = subprocess.run(["/verif/check", pr, "--tier", "quick"], env=env, capture_output=True, text=True)
        lines = [l for l in r.stdout.splitlines() if l.startswith(("VIOLATION", "  signature", "  detail", "["))]
        checks[pr] = {"rc": r.returncode, "verdict": "caught" if r.returncode == 1 else "missed" if r.returncode == 0 else "broken", "output": lines[:6]}
res["checks_quick"] = checks
sh(f"git -C {W} checkout -- . && rm -rf {B} {W}_demo_base {W}_demo_mut")
if ok:
    d = os.path.join("/verif/seeded", sid)
    os.makedirs(d, exist_ok=True)
    shutil.copy(os.path.join(src, "patch.diff"), d)
    shutil.copy(demo_src, d)
    meta = json.load(open(os.path.join(src, "meta.json")))
    meta["confirmed_by_us"] = {k: res[k] for k in ("demo_unchanged_rc", "builds", "unit_tests_rc", "unit_tests_tail", "demo_changed_rc", "demo_changed_out")}
    meta["base_commit"] = head
    meta["checks_quick"] = checks
    json.dump(meta, open(os.path.join(d, "meta.json"), "w"), indent=1)
print(json.dumps(res, indent=1))
