#!/bin/sh
# Build /repo WITHOUT the TEAKRA_VERIF guard in a scratch directory and run the project's own test suite.
set -e
D=$(mktemp -d /tmp/teakra_baseline_off.XXXXXX)
trap 'rm -rf "$D"' EXIT
cmake -G Ninja -S /repo -B "$D" -DCMAKE_BUILD_TYPE=Release >/dev/null
cmake --build "$D" >/dev/null
ctest --test-dir "$D" -j8 --timeout 900 --output-junit "$D/junit.xml"
"$D/tests/teakra_tests" -r compact | tail -3
