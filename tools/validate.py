#!/opt/veriftools/pyvenv/bin/python
import json, jsonschema, glob, sys
m = json.load(open('/verif/MANIFEST.json'))
jsonschema.validate(m, json.load(open('/root/.vp/MANIFEST.schema.json')))
es = json.load(open('/root/.vp/EVIDENCE.schema.json'))
bad = 0
for c in m['checks']:
    try:
        jsonschema.validate(json.load(open(c['evidence_file'])), es)
    except Exception as e:
        bad += 1
        print('EVIDENCE INVALID', c['property_id'], str(e)[:200])
ids = {json.loads(l)['id'] for l in open('/verif/properties.jsonl')}
claimed = {c['property_id'] for c in m['checks']}
na = {n['property_id'] for n in m.get('not_applicable', [])}
assert claimed | na == ids and not (claimed & na), (ids - claimed - na, claimed & na)
print('manifest valid;', len(claimed), 'claimed,', len(na), 'not applicable,', bad, 'bad evidence files')
sys.exit(1 if bad else 0)
