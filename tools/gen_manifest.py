#!/usr/bin/env python3
"""Regenerate /verif/MANIFEST.json from lib/specs.py (+ not_applicable list below)."""
import json, os, subprocess, sys
V = os.path.dirname(os.path.dirname(os.path.abspath(__file__)))
sys.path.insert(0, os.path.join(V, "lib"))
from specs import SPECS, NOT_APPLICABLE

hooks = subprocess.run(["git", "-C", "/repo", "log", "--format=%H %s"], capture_output=True, text=True).stdout.splitlines()
hook_commits = [l.split()[0] for l in hooks if " verif hook:" in l]
m = {
    "version": 1,
    "setup_cmd": "./check --setup",
    "hooks": {
        "guard": "TEAKRA_VERIF",
        "enable": "every repository TU is compiled by lib/vbuild.py with -DTEAKRA_VERIF (clang++ -O1 -fsanitize=address,undefined)",
        "baseline_off_cmd": "/verif/tools/baseline_off.sh",
        "source_commits": hook_commits,
        "add_only": True,
    },
    "engines": [
        {"name": "rapidcheck", "path": "harness/common/vf.h", "serves_properties": sorted(SPECS),
         "kind_free_text": "property-based testing (generated cases / histories, library shrinking + harness reducer, replay files)"},
    ],
    "checks": [],
    "not_applicable": NOT_APPLICABLE,
    "notes": "All checks: ./check <id> --tier quick|thorough; VERIF_SEED selects the generator stream; builds are cached "
             "under /verif/build keyed by a hash of /repo's working tree.",
}
for pid in sorted(SPECS):
    s = SPECS[pid]
    m["checks"].append({
        "property_id": pid,
        "quick_cmd": f"./check {pid} --tier quick",
        "thorough_cmd": f"./check {pid} --tier thorough",
        "evidence_file": f"/verif/evidence/{pid}.json",
        "replay_cmd_template": f"./check {pid} --replay {{path}}",
        "engine": "rapidcheck",
        "level_claimed": {"category": "exploration", "text": s.level_text or s.rule, "design_ref": s.design_ref or f"DESIGN.md section 3, {pid}"},
        "level_note": s.level_note or "; ".join(s.assumptions) or "none",
        "technique": s.technique or "property-based testing (rapidcheck)",
    })
json.dump(m, open(os.path.join(V, "MANIFEST.json"), "w"), indent=1)
print("wrote MANIFEST.json with", len(m["checks"]), "checks,", len(NOT_APPLICABLE), "not applicable")
